"""replay handlers for the aggregation properties (real torch / quadprog / cvxpy)."""
import itertools

import numpy as np
import torch

from _lib import handler, arr, num, close, patched, gram_to_matrix, dist_to_matrix, t64, expect_value_error, HANDLERS, FixedStream, scale_ladder


def qp_reference(P, u):
    """argmin v^T P v  s.t. v >= u, by enumeration of active sets (P positive definite, m small)"""
    m = len(u)
    best, bestv = None, None
    for k in range(m + 1):
        for act in itertools.combinations(range(m), k):
            free = [i for i in range(m) if i not in act]
            v = np.array(u, dtype=float)
            if free:
                # stationarity on the free coordinates: P_ff v_f + P_fa u_a = 0
                Pff = P[np.ix_(free, free)]
                rhs = -P[np.ix_(free, list(act))] @ np.array([u[i] for i in act]) if act else np.zeros(len(free))
                try:
                    v[free] = np.linalg.solve(Pff, rhs)
                except np.linalg.LinAlgError:
                    continue
            mu = P @ v
            if np.all(v >= np.array(u) - 1e-12) and all(mu[i] >= -1e-12 for i in act) and all(abs(mu[i]) < 1e-9 * max(1, abs(P).max()) for i in free):
                val = v @ P @ v
                if best is None or val < best:
                    best, bestv = val, v
    return bestv


def dualcone_reference(J, u, norm_eps, reg_eps, agg):
    m = J.shape[0]
    G = J @ J.T
    s = np.linalg.svd(J, compute_uv=False).max() if J.size else 0.0
    P = (G / s ** 2 if s >= norm_eps else np.zeros((m, m))) + reg_eps * np.eye(m)
    if agg == "dualproj":
        w = qp_reference(P, list(u))
    else:
        w = np.zeros(m)
        for i in range(m):
            e = [u[j] if j == i else 0.0 for j in range(m)]
            w = w + qp_reference(P, e)
    return w, J.T @ w


def make_agg(name, m, params=None, vec=None):
    import torchjd.aggregation as ta
    p = {k: num(v) for k, v in (params or {}).items() if v is not None}
    tv = None if vec is None else torch.tensor(np.asarray(arr(vec), dtype=float), dtype=torch.float64)
    if name == "mean":
        return ta.Mean()
    if name == "sum":
        return ta.Sum()
    if name == "constant":
        return ta.Constant(tv)
    if name == "mgda":
        return ta.MGDA(epsilon=p.get("epsilon", 0.001), max_iters=int(p.get("max_iters", 2 if m == 2 else 1)))
    if name == "imtlg":
        return ta.IMTLG()
    if name.startswith("upgrad"):
        return ta.UPGrad(pref_vector=tv, norm_eps=p.get("norm_eps", 1e-4), reg_eps=p.get("reg_eps", 1e-4))
    if name.startswith("dualproj"):
        return ta.DualProj(pref_vector=tv, norm_eps=p.get("norm_eps", 1e-4), reg_eps=p.get("reg_eps", 1e-4))
    if name.startswith("alignedmtl"):
        return ta.AlignedMTL(pref_vector=tv)
    if name == "cagrad":
        return ta.CAGrad(c=p.get("c", 0.5), norm_eps=p.get("norm_eps", 1e-4))
    if name == "config":
        return ta.ConFIG(pref_vector=tv)
    if name == "pcgrad":
        return ta.PCGrad()
    if name == "random":
        return ta.Random()
    if name == "trimmed_mean":
        return ta.TrimmedMean(int(p.get("b", 0)))
    if name == "krum":
        return ta.Krum(int(p.get("f", 0)), int(p.get("k", 1)))
    if name == "graddrop":
        return ta.GradDrop(leak=tv)
    raise KeyError(name)


@handler("dualcone_wiring")
def r_dualcone(c):
    J = gram_to_matrix(c["G"])
    u = np.asarray(arr(c["u"]), dtype=float)
    eps, reg = num(c["norm_eps"]), num(c["reg_eps"])
    A = make_agg(c["agg"], J.shape[0], dict(norm_eps=eps, reg_eps=reg), c["u"] if c.get("pref") else None)
    out = A(t64(J)).numpy()
    w_ref, ref = dualcone_reference(J, u, eps, reg, c["agg"])
    sc = np.abs(J).max() * max(np.abs(u).max(), np.abs(w_ref).max(), 1e-300)
    return dict(reproduced=not close(out, ref, 1e-5, scale=sc), out=out.tolist(), reference=ref.tolist(), weights_reference=w_ref.tolist())


@handler("bad_pref")
def r_bad_pref(c):
    import torchjd.aggregation as ta
    cls = ta.UPGrad if c["agg"] == "upgrad" else ta.DualProj
    n = int(c["n"])
    if n == -1:
        return expect_value_error(lambda: cls(pref_vector=torch.ones(1, 2)))
    return expect_value_error(lambda: cls(pref_vector=torch.ones(n, dtype=torch.float64))(torch.eye(2, dtype=torch.float64)))


@handler("kkt_lemma")
def r_kkt(c):
    from torchjd.aggregation._dual_cone_utils import _project_weight_vector
    P = np.asarray(arr(c["P"]), dtype=float)
    u = np.asarray(arr(c["u"]), dtype=float)
    v = _project_weight_vector(u, P, "quadprog")
    ref = qp_reference(P, list(u))
    # the projection is positively homogeneous in u: tolerances are relative to the size of u, not absolute
    return dict(reproduced=not close(v, ref, 1e-6, scale=max(np.abs(u).max(), np.abs(ref).max(), 1e-300)), v=v.tolist(), reference=ref.tolist())


@handler("row_perm")
def r_row_perm(c):
    perm = [int(i) for i in c["perm"]]
    vec = c.get("vec")
    def run(J):
        m = J.shape[0]
        A1 = make_agg(c["agg"], m, c.get("params"), vec)
        A2 = make_agg(c["agg"], m, c.get("params"), None if vec is None else [vec[perm[i]] for i in range(m)])
        o1 = A1(t64(J)).numpy()
        o2 = A2(t64(J[perm])).numpy()
        tol = 1e-4 if c["agg"] in ("cagrad",) else 1e-6
        return dict(reproduced=not close(o1, o2, tol, scale=np.abs(J).max()), out=o1.tolist(), out_permuted=o2.tolist(), J=J.tolist())
    first = scale_ladder(run, gram_to_matrix(c["G"]))
    if first.get("reproduced") or c["agg"] != "imtlg" or vec is not None:
        return first
    # a singular Gramian in the model's counterexample: on small exactly-singular matrices a direct solver fails cleanly and the code falls back, so a
    # fault of that kind shows only where rounding hides the singularity - rank-deficient integer matrices with more rows, every row order
    rng = np.random.default_rng(7)
    for trial in range(40):
        B = rng.integers(-2, 3, size=(2, 3)).astype(float)
        C = rng.integers(-2, 3, size=(4, 2)).astype(float)
        Jr = C @ B  # 4 x 3, rank <= 2
        if np.linalg.matrix_rank(Jr) < 2 or np.any(np.linalg.norm(Jr, axis=1) == 0):
            continue
        base = make_agg("imtlg", 4, None, None)(t64(Jr)).numpy()
        for pm in itertools.permutations(range(4)):
            op = make_agg("imtlg", 4, None, None)(t64(Jr[list(pm)])).numpy()
            if not close(base, op, 1e-6, scale=np.abs(Jr).max()):
                return dict(reproduced=True, out=base.tolist(), out_permuted=op.tolist(), J=Jr.tolist(), perm=list(pm),
                            found_by="rank-deficient integer matrices with 4 rows (the model's counterexample has a singular Gramian)")
    return first


@handler("row_perm_entry")
def r_row_perm_entry(c):
    J = np.asarray(arr(c["J"]), dtype=float)
    perm = [int(i) for i in c["perm"]]
    m = J.shape[0]
    if c["agg"] == "trimmed_mean":
        A1 = A2 = make_agg("trimmed_mean", m, dict(b=c["b"]))
        o1, o2 = A1(t64(J)).numpy(), A2(t64(J[perm])).numpy()
    elif c["agg"] == "config":
        vec = c.get("pref")
        A1 = make_agg("config", m, None, vec)
        A2 = make_agg("config", m, None, None if vec is None else [vec[perm[i]] for i in range(m)])
        o1, o2 = A1(t64(J)).numpy(), A2(t64(J[perm])).numpy()
        # ConFIG normalises pinv(units) @ weights; where that vector is exactly 0 the code returns 0, and in floating point the rounding residue
        # of the pseudo-inverse is normalised instead: a 0/0 point of the definition, decided by rounding - no witness for anything
        nr = np.linalg.norm(J, axis=1)
        units = np.where(nr[:, None] > 0, J / np.where(nr > 0, nr, 1.0)[:, None], 0.0)
        wv = np.ones(m) if vec is None else np.asarray(arr(vec), dtype=float)
        P = np.linalg.pinv(units)
        if np.linalg.norm(P @ wv) <= 1e-9 * np.linalg.norm(P, 2) * max(np.linalg.norm(wv), 1e-300):
            return dict(reproduced=False, degenerate="pinv(units) @ weights is 0: the direction is 0/0", out=o1.tolist(), out_permuted=o2.tolist())
    else:  # graddrop under a fixed stream
        fs = FixedStream(np.asarray(arr(c["U"]), dtype=float))
        leak = c.get("leak")
        A1 = make_agg("graddrop", m, None, leak)
        A2 = make_agg("graddrop", m, None, None if leak is None else [leak[perm[i]] for i in range(m)])
        with patched(torch, "rand", fs):
            fs.reset()
            o1 = A1(t64(J)).numpy()
            fs.reset()
            o2 = A2(t64(J[perm])).numpy()
    return dict(reproduced=not close(o1, o2, 1e-6), out=o1.tolist(), out_permuted=o2.tolist())


@handler("row_perm_krum")
def r_row_perm_krum(c):
    D = np.asarray(arr(c["dist"]), dtype=float)
    perm = [int(i) for i in c["perm"]]
    m = D.shape[0]
    A = make_agg("krum", m, dict(f=c["f"], k=c["k"]))
    X = dist_to_matrix(D)
    if X is not None:
        w1 = A.weighting(t64(X)).numpy()
        w2 = A.weighting(t64(X[perm])).numpy()
    else:
        Dp = D[np.ix_(perm, perm)]
        with patched(torch, "cdist", lambda a, b, **kw: t64(D)):
            w1 = A.weighting(torch.zeros(m, 1, dtype=torch.float64)).numpy()
        with patched(torch, "cdist", lambda a, b, **kw: t64(Dp)):
            w2 = A.weighting(torch.zeros(m, 1, dtype=torch.float64)).numpy()
    return dict(reproduced=not close(w1[perm], w2), w=w1.tolist(), w_permuted_run=w2.tolist(), euclidean=X is not None)


@handler("impartial")
def r_impartial(c):
    agg = c["agg"]
    if agg == "imtlg":
        def clause(J):
            G = J @ J.T
            A = make_agg("imtlg", J.shape[0])
            w = A.weighting(t64(J)).numpy()
            nr = np.sqrt(np.diag(G))
            proj = (G @ w) / nr
            bad = []
            if abs(w.sum() - 1) > 1e-6:
                bad.append(f"weights sum to {w.sum()}")
            if np.max(np.abs(proj - proj[0])) > 1e-6 * max(1.0, np.abs(proj).max()):
                bad.append(f"projections differ: {proj.tolist()}")
            return bad, w, G
        J = gram_to_matrix(c["G"])
        bad, w, G = clause(J)
        if not bad and c.get("any_pinv"):
            # the model's pinv was an arbitrary kernel, so its Gramian need not be a witness for the real pinv: search well-conditioned random
            # full-row-rank matrices for one on which the stated clause fails with the real kernel (the normalisation must be well defined on it)
            rng = np.random.default_rng(0)
            for trial in range(4000):
                Jr = rng.normal(size=(J.shape[0], J.shape[0] + rng.integers(0, 2)))
                Gr = Jr @ Jr.T
                if np.linalg.cond(Gr) > 1e6:
                    continue
                v = np.linalg.solve(Gr, np.sqrt(np.diag(Gr)))
                if abs(v.sum()) < 1e-3 * np.abs(v).sum():
                    continue
                b2, w2, _ = clause(Jr)
                if b2:
                    return dict(reproduced=True, why=b2, weights=w2.tolist(), J=Jr.tolist(), found_by="search over random well-conditioned matrices")
            return dict(reproduced=False, why=[], searched=4000)
        key = None
        if bad and not np.any(w):
            d = torch.linalg.norm(t64(J), dim=1)
            v = (torch.linalg.pinv(t64(G)) @ d).numpy()
            if abs(v.sum()) > 1e-12 * np.abs(v).sum():
                key = "imtlg:absolute-threshold-zeroes-well-defined-weights"
        return dict(reproduced=bool(bad), why=bad, weights=w.tolist(), finding_key=key)
    if agg == "config":
        J = np.asarray(arr(c["J"]), dtype=float)
        m = J.shape[0]
        pref = c.get("pref")
        u = np.asarray(arr(pref), dtype=float) if pref is not None else np.ones(m)
        def clause(dt, tol):
            A = make_agg("config", m, None, pref)
            if dt is torch.float32:
                A = make_agg("config", m, None, None) if pref is None else __import__("torchjd.aggregation", fromlist=["ConFIG"]).ConFIG(pref_vector=torch.tensor(u, dtype=torch.float32))
            out = A(torch.tensor(J, dtype=dt)).double().numpy()
            cos = (J @ out) / (np.linalg.norm(J, axis=1) * max(np.linalg.norm(out), 1e-300))
            bad = []
            # a zero preference asks for cosine zero with that row (cosines lie in [-1, 1]: absolute tolerance); positive preferences for positive cosines
            if not (np.all(cos[u > 0] > 0) and np.all(np.abs(cos[u == 0]) <= tol)):
                bad.append(f"cosine sign pattern does not match the preferences: {cos.tolist()} ({dt})")
            k = int(np.argmax(u))
            r = cos * u[k] - cos[k] * u
            if not np.max(np.abs(r)) <= tol * max(1.0, abs(cos[k])) * u[k]:
                bad.append(f"cosines not proportional to the preferences: {cos.tolist()} ({dt})")
            if not abs(np.linalg.norm(out) - float((J @ out).sum() / max(np.linalg.norm(out), 1e-300))) <= tol * max(1.0, np.linalg.norm(out)):
                bad.append(f"length is not the sum of the projections ({dt})")
            return bad, out
        # the model runs in float32 (dtype-dependent constants such as finfo(dtype).eps take their float32 values there): both dtypes are tried
        bad, out = clause(torch.float64, 1e-6)
        if not bad and np.any(u > 0) and np.all(u >= 0) and np.linalg.cond(J) < 1e3:
            bad, out = clause(torch.float32, 1e-3)
        return dict(reproduced=bool(bad), why=bad, out=out.tolist())
    if agg == "alignedmtl":
        pref = c.get("pref")
        def run(J):
            m = J.shape[0]
            A = make_agg("alignedmtl", m, None, pref)
            out = A(t64(J)).numpy()
            u = np.asarray(arr(pref), dtype=float) if pref is not None else np.ones(m) / m
            lam, V = np.linalg.eigh(J @ J.T)
            Bm = np.sqrt(lam.min()) * V @ np.diag(1 / np.sqrt(lam)) @ V.T
            ref = (Bm @ u) @ J
            sc = np.abs(J).max() * max(1.0, np.abs(u).max())
            return dict(reproduced=not close(out, ref, 1e-5, scale=sc), out=out.tolist(), reference=ref.tolist(), J=J.tolist())
        return scale_ladder(run, gram_to_matrix(c["G"]))
    raise KeyError(agg)


@handler("zero_matrix")
def r_zero(c):
    A = make_agg(c["agg"], int(c["m"]))
    try:
        out = A(torch.zeros(int(c["m"]), int(c["n"]), dtype=torch.float64)).numpy()
    except Exception as e:  # noqa
        return dict(reproduced=True, why=[f"raised {type(e).__name__}: {e}"])
    return dict(reproduced=bool(out.shape != (int(c["n"]),) or np.any(out != 0)), out=out.tolist())


# ------------------------------------------------------------------------------------------- C11
def _agg_from_c11(c, m):
    p = c.get("params") or {}
    agg = c["agg"]
    def vec(prefix):
        vals = [p.get(f"{prefix}{i}") for i in range(m)]
        return None if any(v is None for v in vals) else vals
    if agg == "constant":
        return make_agg("constant", m, None, vec("cw"))
    if agg == "dualproj":
        return make_agg("dualproj", m, p, vec("u"))
    if agg == "graddrop":
        return make_agg("graddrop", m, None, vec("leak") if c.get("leak") else None)
    if agg == "trimmed_mean":
        return make_agg("trimmed_mean", m, dict(b=(m - 1) // 2 if m > 2 else 0))
    if agg == "krum":
        return make_agg("krum", m, dict(f=0 if m == 3 else 1, k=c.get("k", 1)))
    return make_agg(agg, m, p)


@handler("homogeneity")
def r_homog(c):
    J = gram_to_matrix(c["G"])
    t = num(c["t"])
    m = J.shape[0]
    A = _agg_from_c11(c, m)
    torch.manual_seed(0)
    o1 = A(t64(J)).numpy()
    torch.manual_seed(0)
    o2 = A(t64(J * t)).numpy()
    bad = not close(o2, t * o1, 1e-5, scale=max(np.abs(J).max() * max(t, 1.0), 1e-300))
    key = None
    if bad and c["agg"] == "imtlg" and not np.any(o1 if abs(t) < 1 else o2) :
        key = "imtlg:absolute-threshold-zeroes-well-defined-weights"
    return dict(reproduced=bad, A_J=o1.tolist(), A_tJ=o2.tolist(), t=t, finding_key=key)


@handler("homogeneity_entry")
def r_homog_entry(c):
    J = np.asarray(arr(c["J"]), dtype=float)
    t = num(c["t"])
    m = J.shape[0]
    U = t64(np.asarray(arr(c["U"]), dtype=float)) if c.get("U") else None
    A = _agg_from_c11(dict(c, leak=any(k.startswith("leak") and v is not None for k, v in (c.get("params") or {}).items())), m)
    fs = FixedStream(U.numpy()) if U is not None else None
    def run(X):
        if fs is not None and c["agg"] == "graddrop":
            fs.reset()
            with patched(torch, "rand", fs):
                return A(t64(X)).numpy()
        return A(t64(X)).numpy()
    o1, o2 = run(J), run(J * t)
    return dict(reproduced=not close(o2, t * o1, 1e-6), A_J=o1.tolist(), A_tJ=o2.tolist())


@handler("total")
def r_total(c):
    m = int(c["m"])
    dt = torch.float64 if "64" in c.get("dtype", "") else torch.float32
    if "G" in c:
        J = gram_to_matrix(c["G"])
    else:
        X = dist_to_matrix(np.asarray(arr(c["dist"]), dtype=float))
        J = X if X is not None else np.eye(m)
    A = _agg_from_c11(c, m)
    for mod in A.modules():
        for k, v in list(vars(mod).items()):
            if isinstance(v, torch.Tensor):
                setattr(mod, k, v.to(dt))
    try:
        out = A(torch.tensor(J, dtype=dt))
    except Exception as e:  # noqa
        return dict(reproduced=True, why=[f"raised {type(e).__name__}: {e}"])
    bad = []
    if tuple(out.shape) != (J.shape[1],):
        bad.append(f"shape {tuple(out.shape)}")
    if out.dtype != dt:
        bad.append(f"dtype {out.dtype} for input {dt}")
    if not torch.isfinite(out).all():
        bad.append("non-finite output")
    return dict(reproduced=bool(bad), why=bad)


@handler("total_entry")
def r_total_entry(c):
    J = np.asarray(arr(c["J"]), dtype=float)
    m = J.shape[0]
    dt = torch.float64 if "64" in c.get("dtype", "") else torch.float32
    A = _agg_from_c11(dict(c, leak=False), m)
    X = torch.tensor(J, dtype=dt)
    X0 = X.clone()
    try:
        out = A(X)
    except Exception as e:  # noqa
        return dict(reproduced=True, why=[f"raised {type(e).__name__}: {e}"])
    bad = []
    if tuple(out.shape) != (J.shape[1],) or out.dtype != dt:
        bad.append(f"shape/dtype {tuple(out.shape)} {out.dtype}")
    if not torch.isfinite(out).all():
        bad.append("non-finite output")
    if not torch.equal(X, X0):
        bad.append("input modified")
    return dict(reproduced=bool(bad), why=bad)


@handler("reject")
def r_reject(c):
    agg = c["agg"]
    m = 4 if agg == "krum" else 3
    import torchjd.aggregation as ta
    A = {"constant": lambda: ta.Constant(torch.ones(m, dtype=torch.float64)), "graddrop": lambda: ta.GradDrop(leak=torch.ones(m, dtype=torch.float64) * 0.5 if c.get("what") == "rows" else None),
         "trimmed_mean": lambda: ta.TrimmedMean(1), "krum": lambda: ta.Krum(1, 1), "dualproj": lambda: ta.DualProj(), "cagrad": lambda: ta.CAGrad(c=0.5)}.get(agg, lambda: make_agg(agg, m))()
    if c["what"] == "shape":
        X = torch.ones(tuple(c["shape"]), dtype=torch.float64)
    elif c["what"] == "special":
        X = torch.ones(int(c["m"]), int(c["n"]), dtype=torch.float64)
        X.view(-1)[int(c["position"])] = float(c["special"])
    else:
        X = torch.ones(int(c["rows"]), 2, dtype=torch.float64)
    return expect_value_error(lambda: A(X))


@handler("stateless")
def r_stateless(c):
    m = 3 if c["agg"] == "krum" else 2
    rng = np.random.default_rng(0)
    bad = []
    for trial in range(5):
        J1, J2 = rng.normal(size=(m, 3)), rng.normal(size=(m, 3))
        A, Bg = _agg_from_c11(c, m), _agg_from_c11(c, m)
        torch.manual_seed(1)
        try:
            A(torch.tensor(J1, dtype=torch.float32) if c.get("other_dtype") else t64(J1))
            torch.manual_seed(2)
            oa = A(t64(J2)).numpy()
        except Exception as e:  # noqa
            bad.append(f"trial {trial}: raised {type(e).__name__}: {e}")
            continue
        torch.manual_seed(2)
        ob = Bg(t64(J2)).numpy()
        if not close(oa, ob, 1e-6):
            bad.append(f"trial {trial}: {oa.tolist()} vs {ob.tolist()}")
    return dict(reproduced=bool(bad), why=bad[:2])


@handler("vectors_untouched")
def r_vectors_untouched(c):
    """the tensor the user configured the aggregator with must not be modified by a call, and a later call must not depend on an earlier one"""
    J = np.asarray(arr(c["J"]), dtype=float)
    v = np.asarray(arr(c["v"]), dtype=float)
    m = J.shape[0]
    from torchjd.aggregation import ConFIG, UPGrad, DualProj, AlignedMTL, Constant, GradDrop
    def build(vt):
        return dict(config=lambda: ConFIG(pref_vector=vt), upgrad=lambda: UPGrad(pref_vector=vt), dualproj=lambda: DualProj(pref_vector=vt),
                    alignedmtl=lambda: AlignedMTL(pref_vector=vt), constant=lambda: Constant(vt), graddrop=lambda: GradDrop(leak=vt))[c["agg"]]()
    bad = []
    vt = t64(v)
    keep = vt.clone()
    A = build(vt)
    torch.manual_seed(0)
    try:
        A(t64(J))
    except Exception as e:  # noqa
        return dict(reproduced=False, note=f"the call raises on the real stack: {type(e).__name__}: {e}")
    if not torch.equal(vt, keep):
        bad.append(f"the configured vector was modified by the call: {keep.tolist()} -> {vt.tolist()}")
    rng = np.random.default_rng(0)
    for trial in range(3):
        J2 = rng.normal(size=(m, 3))
        torch.manual_seed(1)
        oa = A(t64(J2)).numpy()
        torch.manual_seed(1)
        ob = build(t64(v))(t64(J2)).numpy()
        if not close(oa, ob, 1e-9, scale=np.abs(J2).max()):
            bad.append(f"after the call on {J.tolist()}, A(J2) = {oa.tolist()} but a fresh instance gives {ob.tolist()}")
            break
    return dict(reproduced=bool(bad), why=bad[:2])


@handler("seeded")
def r_seeded(c):
    J = t64(np.array([[1.0, -2.0, 0.5], [-1.0, 1.0, 3.0]]))
    A = make_agg(c["agg"], 2)
    torch.manual_seed(7)
    o1 = A(J).numpy()
    torch.manual_seed(7)
    o2 = A(J).numpy()
    return dict(reproduced=not close(o1, o2, 0))


@handler("homogeneity_krum")
def r_homog_krum(c):
    D = np.asarray(arr(c["dist"]), dtype=float)
    t = num(c["t"])
    m = D.shape[0]
    A = make_agg("krum", m, dict(f=0 if m == 3 else 1, k=1))
    with patched(torch, "cdist", lambda a, b, **kw: t64(D)):
        w1 = A.weighting(torch.zeros(m, 1, dtype=torch.float64)).numpy()
    with patched(torch, "cdist", lambda a, b, **kw: t64(D * t)):
        w2 = A.weighting(torch.zeros(m, 1, dtype=torch.float64)).numpy()
    return dict(reproduced=not close(w1, w2))
