"""replay handlers for the aggregation properties (real torch / quadprog / cvxpy)."""
import itertools

import numpy as np
import torch

from _lib import handler, arr, num, close, patched, gram_to_matrix, dist_to_matrix, t64, expect_value_error, HANDLERS


def qp_reference(P, u):
    """argmin v^T P v  s.t. v >= u, by enumeration of active sets (P positive definite, m small)"""
    m = len(u)
    best, bestv = None, None
    for k in range(m + 1):
        for act in itertools.combinations(range(m), k):
            free = [i for i in range(m) if i not in act]
            v = np.array(u, dtype=float)
            if free:
                # stationarity on the free coordinates: P_ff v_f + P_fa u_a = 0
                Pff = P[np.ix_(free, free)]
                rhs = -P[np.ix_(free, list(act))] @ np.array([u[i] for i in act]) if act else np.zeros(len(free))
                try:
                    v[free] = np.linalg.solve(Pff, rhs)
                except np.linalg.LinAlgError:
                    continue
            mu = P @ v
            if np.all(v >= np.array(u) - 1e-12) and all(mu[i] >= -1e-12 for i in act) and all(abs(mu[i]) < 1e-9 * max(1, abs(P).max()) for i in free):
                val = v @ P @ v
                if best is None or val < best:
                    best, bestv = val, v
    return bestv


def dualcone_reference(J, u, norm_eps, reg_eps, agg):
    m = J.shape[0]
    G = J @ J.T
    s = np.linalg.svd(J, compute_uv=False).max() if J.size else 0.0
    P = (G / s ** 2 if s >= norm_eps else np.zeros((m, m))) + reg_eps * np.eye(m)
    if agg == "dualproj":
        w = qp_reference(P, list(u))
    else:
        w = np.zeros(m)
        for i in range(m):
            e = [u[j] if j == i else 0.0 for j in range(m)]
            w = w + qp_reference(P, e)
    return w, J.T @ w


def make_agg(name, m, params=None, vec=None):
    import torchjd.aggregation as ta
    p = {k: num(v) for k, v in (params or {}).items() if v is not None}
    tv = None if vec is None else torch.tensor(np.asarray(arr(vec), dtype=float), dtype=torch.float64)
    if name == "mean":
        return ta.Mean()
    if name == "sum":
        return ta.Sum()
    if name == "constant":
        return ta.Constant(tv)
    if name == "mgda":
        return ta.MGDA(epsilon=p.get("epsilon", 0.001), max_iters=int(p.get("max_iters", 2 if m == 2 else 1)))
    if name == "imtlg":
        return ta.IMTLG()
    if name.startswith("upgrad"):
        return ta.UPGrad(pref_vector=tv, norm_eps=p.get("norm_eps", 1e-4), reg_eps=p.get("reg_eps", 1e-4))
    if name.startswith("dualproj"):
        return ta.DualProj(pref_vector=tv, norm_eps=p.get("norm_eps", 1e-4), reg_eps=p.get("reg_eps", 1e-4))
    if name.startswith("alignedmtl"):
        return ta.AlignedMTL(pref_vector=tv)
    if name == "cagrad":
        return ta.CAGrad(c=p.get("c", 0.5), norm_eps=p.get("norm_eps", 1e-4))
    if name == "config":
        return ta.ConFIG(pref_vector=tv)
    if name == "pcgrad":
        return ta.PCGrad()
    if name == "random":
        return ta.Random()
    if name == "trimmed_mean":
        return ta.TrimmedMean(int(p.get("b", 0)))
    if name == "krum":
        return ta.Krum(int(p.get("f", 0)), int(p.get("k", 1)))
    if name == "graddrop":
        return ta.GradDrop(leak=tv)
    raise KeyError(name)


@handler("dualcone_wiring")
def r_dualcone(c):
    J = gram_to_matrix(c["G"])
    u = np.asarray(arr(c["u"]), dtype=float)
    eps, reg = num(c["norm_eps"]), num(c["reg_eps"])
    A = make_agg(c["agg"], J.shape[0], dict(norm_eps=eps, reg_eps=reg), c["u"] if c.get("pref") else None)
    out = A(t64(J)).numpy()
    w_ref, ref = dualcone_reference(J, u, eps, reg, c["agg"])
    return dict(reproduced=not close(out, ref, 1e-5), out=out.tolist(), reference=ref.tolist(), weights_reference=w_ref.tolist())


@handler("bad_pref")
def r_bad_pref(c):
    import torchjd.aggregation as ta
    cls = ta.UPGrad if c["agg"] == "upgrad" else ta.DualProj
    n = int(c["n"])
    if n == -1:
        return expect_value_error(lambda: cls(pref_vector=torch.ones(1, 2)))
    return expect_value_error(lambda: cls(pref_vector=torch.ones(n, dtype=torch.float64))(torch.eye(2, dtype=torch.float64)))


@handler("kkt_lemma")
def r_kkt(c):
    from torchjd.aggregation._dual_cone_utils import _project_weight_vector
    P = np.asarray(arr(c["P"]), dtype=float)
    u = np.asarray(arr(c["u"]), dtype=float)
    v = _project_weight_vector(u, P, "quadprog")
    ref = qp_reference(P, list(u))
    return dict(reproduced=not close(v, ref, 1e-6), v=v.tolist(), reference=ref.tolist())


@handler("row_perm")
def r_row_perm(c):
    J = gram_to_matrix(c["G"])
    perm = [int(i) for i in c["perm"]]
    m = J.shape[0]
    vec = c.get("vec")
    A1 = make_agg(c["agg"], m, c.get("params"), vec)
    A2 = make_agg(c["agg"], m, c.get("params"), None if vec is None else [vec[perm[i]] for i in range(m)])
    o1 = A1(t64(J)).numpy()
    o2 = A2(t64(J[perm])).numpy()
    tol = 1e-4 if c["agg"] in ("cagrad",) else 1e-6
    return dict(reproduced=not close(o1, o2, tol), out=o1.tolist(), out_permuted=o2.tolist())


@handler("row_perm_entry")
def r_row_perm_entry(c):
    J = np.asarray(arr(c["J"]), dtype=float)
    perm = [int(i) for i in c["perm"]]
    m = J.shape[0]
    if c["agg"] == "trimmed_mean":
        A1 = A2 = make_agg("trimmed_mean", m, dict(b=c["b"]))
        o1, o2 = A1(t64(J)).numpy(), A2(t64(J[perm])).numpy()
    elif c["agg"] == "config":
        vec = c.get("pref")
        A1 = make_agg("config", m, None, vec)
        A2 = make_agg("config", m, None, None if vec is None else [vec[perm[i]] for i in range(m)])
        o1, o2 = A1(t64(J)).numpy(), A2(t64(J[perm])).numpy()
    else:  # graddrop under a fixed stream
        U = t64(np.asarray(arr(c["U"]), dtype=float))
        leak = c.get("leak")
        A1 = make_agg("graddrop", m, None, leak)
        A2 = make_agg("graddrop", m, None, None if leak is None else [leak[perm[i]] for i in range(m)])
        with patched(torch, "rand", lambda *a, **k: U):
            o1, o2 = A1(t64(J)).numpy(), A2(t64(J[perm])).numpy()
    return dict(reproduced=not close(o1, o2, 1e-6), out=o1.tolist(), out_permuted=o2.tolist())


@handler("row_perm_krum")
def r_row_perm_krum(c):
    D = np.asarray(arr(c["dist"]), dtype=float)
    perm = [int(i) for i in c["perm"]]
    m = D.shape[0]
    A = make_agg("krum", m, dict(f=c["f"], k=c["k"]))
    X = dist_to_matrix(D)
    if X is not None:
        w1 = A.weighting(t64(X)).numpy()
        w2 = A.weighting(t64(X[perm])).numpy()
    else:
        Dp = D[np.ix_(perm, perm)]
        with patched(torch, "cdist", lambda a, b, **kw: t64(D)):
            w1 = A.weighting(torch.zeros(m, 1, dtype=torch.float64)).numpy()
        with patched(torch, "cdist", lambda a, b, **kw: t64(Dp)):
            w2 = A.weighting(torch.zeros(m, 1, dtype=torch.float64)).numpy()
    return dict(reproduced=not close(w1[perm], w2), w=w1.tolist(), w_permuted_run=w2.tolist(), euclidean=X is not None)
