"""Replay of a solver counterexample on the REAL stack (real torch, real numpy/quadprog/cvxpy, real torchjd from
/repo/src).  Run with /venv/bin/python.  Prints one line `REPLAY {json}`; `reproduced: true` means the property
clause named in the counterexample is violated by the real code on the concrete input.  Handlers live in
real_*.py next to this file; each recomputes the clause with an independent numpy/python reference."""
import glob
import json
import os
import sys

sys.path.insert(0, os.path.join(os.environ.get("VERIF_REPO", "/repo"), "src"))
sys.path.insert(0, os.path.dirname(os.path.abspath(__file__)))
from _lib import HANDLERS


def main():
    c = json.load(open(sys.argv[1]))
    for f in sorted(glob.glob(os.path.join(os.path.dirname(os.path.abspath(__file__)), "real_*.py"))):
        __import__(os.path.basename(f)[:-3])
    h = HANDLERS.get(c.get("kind"))
    if h is None:
        print("REPLAY " + json.dumps(dict(reproduced=None, error=f"no replay handler for kind {c.get('kind')}")))
        return 2
    try:
        r = h(c)
        if not r.get("reproduced") and c.get("jac") == {}:
            # a structural counterexample: its values are free.  Generic values expose faults that move rows / columns around, all-zero local
            # Jacobians expose faults keyed to flat (zero-gradient) outputs: both instantiations are tried
            import _lib
            _lib.FILL[0] = "zeros"
            try:
                r2 = h(c)
            finally:
                _lib.FILL[0] = "generic"
            if r2.get("reproduced"):
                r = dict(r2, instantiated_with="all-zero local Jacobians")
    except (ValueError, RuntimeError, TypeError, IndexError, KeyError, ZeroDivisionError, AttributeError) as e:
        # the model saw the real code raise on arguments that are VALID for the property (the counterexample says so: `raised`), and the real
        # stack raises as well while the scenario is re-executed: that is the violation.  Without `raised` it is an error of the replay.
        if not c.get("raised"):
            raise
        r = dict(reproduced=True, why=[f"the call raises on valid arguments: {type(e).__name__}: {str(e)[:300]}"], model_saw=c.get("raised"))
    print("REPLAY " + json.dumps(r, default=str))
    return 1 if r.get("reproduced") else 0


if __name__ == "__main__":
    sys.exit(main())
