"""replay handlers for C16 / C18"""
import itertools, math
import numpy as np
import torch
from _lib import *

# ------------------------------------------------------------------------------------------- C18
def _pc_reference_vec(J, orders):
    m = J.shape[0]
    tot = np.zeros(J.shape[1])
    for i in range(m):
        g = J[i].copy()
        for j in orders[i]:
            if j == i:
                continue
            ip = g @ J[j]
            if ip < 0:
                g = g - ip / (J[j] @ J[j]) * J[j]
        tot += g
    return tot


@handler("pcgrad")
def r_pcgrad(c):
    from torchjd.aggregation import PCGrad
    orders = [list(map(int, o)) for o in c["orders"]]
    def run(J):
        it = iter(orders)
        with patched(torch, "randperm", lambda n, **k: torch.tensor(next(it))):
            out = PCGrad()(t64(J)).numpy()
        ref = _pc_reference_vec(J, orders)
        return dict(reproduced=not close(out, ref, 1e-6, scale=np.abs(J).max()), out=out.tolist(), reference=ref.tolist(), J=J.tolist())
    return scale_ladder(run, gram_to_matrix(c["G"]) if "G" in c else np.asarray(arr(c["J"]), dtype=float))


HANDLERS["pcgrad_vec"] = r_pcgrad


@handler("mgda")
def r_mgda(c):
    from torchjd.aggregation import MGDA
    def run(J):
        G = J @ J.T
        A = MGDA(epsilon=num(c["epsilon"]), max_iters=int(c["iters"]))
        a = A.weighting(t64(J)).numpy()
        m = len(a)
        q = lambda v: float(v @ G @ v)
        s = max(abs(G).max(), 1e-300)  # tolerances relative to the scale of the input
        bad = []
        if abs(a.sum() - 1) > TOL or a.min() < -TOL:
            bad.append("not on the simplex")
        if q(a) > q(np.ones(m) / m) + TOL * s:
            bad.append("longer than the mean")
        if m == 2 and c.get("ob") == "mgda_m2_exact_min_norm_point":
            ts = np.linspace(0, 1, 20001)
            best = min(q(np.array([t, 1 - t])) for t in ts)
            if q(a) > best + 1e-5 * s:
                bad.append(f"not the min-norm point of the segment: {q(a)} vs {best}")
        return dict(reproduced=bool(bad), why=bad, alpha=a.tolist(), J=J.tolist())
    return scale_ladder(run, gram_to_matrix(c["G"]))


@handler("random")
def r_random(c):
    from torchjd.aggregation import Random
    J = gram_to_matrix(c["G"])
    w = Random().weighting(t64(J)).numpy()
    return dict(reproduced=bool(abs(w.sum() - 1) > TOL or w.min() <= 0), w=w.tolist())


@handler("graddrop")
def r_graddrop(c):
    from torchjd.aggregation import GradDrop
    J = np.asarray(arr(c["J"]), dtype=float)
    U = np.asarray(arr(c["U"]), dtype=float)
    leak = None if c.get("leak") is None else np.asarray(arr(c["leak"]), dtype=float)
    m, n = J.shape
    lk = leak if leak is not None else np.zeros(m)
    ref = np.zeros(n)
    for j in range(n):
        col = J[:, j]
        sabs = np.abs(col).sum()
        if sabs == 0:
            continue
        P = 0.5 * (1 + col.sum() / sabs)
        for i in range(m):
            kept = (P > U[j] and col[i] > 0) or (P < U[j] and col[i] < 0)
            ref[j] += col[i] if kept else lk[i] * col[i]
    with patched(torch, "rand", FixedStream(U)):
        out = GradDrop(leak=None if leak is None else t64(leak))(t64(J)).numpy()
    return dict(reproduced=not close(out, ref), out=out.tolist(), reference=ref.tolist())


@handler("cagrad")
def r_cagrad(c):
    from torchjd.aggregation import CAGrad
    cc, eps = num(c["c"]), num(c["norm_eps"])
    def run(J):
        nonlocal_eps = eps
        A = CAGrad(c=cc, norm_eps=nonlocal_eps)
        out = A(t64(J)).numpy()
        g0 = J.mean(0)
        lhs, rhs = float(np.linalg.norm(out - g0)), cc * float(np.linalg.norm(g0))
        zero = float(np.linalg.norm(out)) <= 1e-12 * max(np.abs(J).max(), 1e-300)
        # the zero vector is the stated answer only "at stationarity": in the code's terms |J^T w| < norm_eps in normalised units for the optimal w.  It
        # cannot be the case when the matrix is not below norm_eps and EVERY convex combination of the normalised rows is longer than norm_eps
        # (with a 0.1 % margin, so that a boundary case decided by rounding is no witness)
        from real_agg2 import _min_norm_value
        G = J @ J.T
        smax = float(np.linalg.svd(J, compute_uv=False).max()) if J.size else 0.0
        zero_impossible = smax >= eps * 1.001 and smax > 0 and np.sqrt(_min_norm_value(G / smax ** 2)) >= eps * 1.001
        if zero:
            ok = not zero_impossible
        else:
            ok = abs(lhs - rhs) <= 1e-4 * max(np.abs(J).max(), rhs, 1e-300)
        return dict(reproduced=not ok, dist=lhs, expected=rhs, out=out.tolist(), J=J.tolist(), zero_output=bool(zero), zero_cannot_be_stationarity=bool(zero_impossible))
    first = scale_ladder(run, gram_to_matrix(c["G"]))
    if first.get("reproduced"):
        return first
    # the solver's witness sits on a boundary (|J^T w| = norm_eps exactly) where rounding decides: look for a witness of the same clause away from it -
    # two-row matrices of increasing condition number, the counterexample's c and norm_eps as well as the default norm_eps
    eps0 = eps
    for e_ in (eps0, 1e-4):
        for cond in (3.0, 10.0, 30.0, 100.0, 300.0, 1000.0, 1e4):
            for base in ([[1.0, 1.0], [-1.0, 1.0]], [[2.0, 1.0], [-1.0, 1.0]], [[1.0, 1.0], [1.0, -1.0]]):
                Jc = np.asarray(base, dtype=float) * np.array([1.0, 1.0 / cond])
                eps = e_
                r = run(Jc)
                if r.get("reproduced"):
                    return dict(r, norm_eps=e_, found_by="two-row matrices of increasing condition number (the solver's witness lies on a rounding boundary)")
    eps = eps0
    return first


# ------------------------------------------------------------------------------------------- C16
@handler("trimmed_mean")
def r_tm(c):
    from torchjd.aggregation import TrimmedMean
    J = np.asarray(arr(c["J"]), dtype=float)
    b = int(c["b"])
    m, n = J.shape
    out = TrimmedMean(b)(t64(J)).numpy()
    ref = np.array([sum(sorted(J[:, j])[b:m - b]) / (m - 2 * b) for j in range(n)])
    bad = not close(out, ref)
    return dict(reproduced=bad, out=out.tolist(), reference=ref.tolist())


@handler("tm_reject")
def r_tm_reject(c):
    from torchjd.aggregation import TrimmedMean
    return expect_value_error(lambda: TrimmedMean(int(c["b"]))(torch.zeros(int(c["m"]), int(c["n"]), dtype=torch.float64)))


@handler("tm_ctor")
def r_tm_ctor(c):
    from torchjd.aggregation import TrimmedMean
    return expect_value_error(lambda: TrimmedMean(-1))


@handler("krum")
def r_krum(c):
    from torchjd.aggregation import Krum
    D = np.asarray(arr(c["dist"]), dtype=float)
    m = D.shape[0]
    f, k = int(c["f"]), int(c["k"])
    if c.get("cdist_mm"):
        # the model saw torch.cdist called in a mode that switches to the matrix-multiplication formula beyond 25 rows: the witness has to be a
        # LARGE float32 matrix whose rows share a big common component (where that formula cancels), compared with an exact float64 selection
        bad = []
        for (mm_, nn_, ff, kk, seed) in [(30, 6, 2, 1, 0), (30, 6, 2, 3, 1), (40, 10, 3, 1, 2), (26, 4, 1, 2, 3)]:
            rng = np.random.default_rng(seed)
            dev = rng.standard_normal((mm_, nn_))
            dev[:kk] *= 0.05
            Jb = 3000.0 + dev
            Jb[-ff:] = -1e6 * rng.random((ff, nn_))
            Jb = Jb.astype(np.float32)
            Dd = np.sqrt(((Jb.astype(np.float64)[:, None, :] - Jb.astype(np.float64)[None, :, :]) ** 2).sum(-1))
            sc = np.array([np.sort(np.delete(Dd[i], i))[:mm_ - ff - 2].sum() for i in range(mm_)])
            order = np.argsort(sc)
            if sc[order[kk]] - sc[order[kk - 1]] < 0.1:
                continue  # near-tie: no witness
            wts = Krum(n_byzantine=ff, n_selected=kk).weighting(torch.tensor(Jb)).numpy()
            sel = sorted(int(i) for i in np.nonzero(wts > 0)[0])
            if sel != sorted(int(i) for i in order[:kk]):
                bad.append(f"{mm_} x {nn_} float32 rows 3000 + N(0,1), f={ff}, k={kk}: selected rows {sel}, smallest scores are rows {sorted(int(i) for i in order[:kk])}")
        return dict(reproduced=bool(bad), why=bad[:3], how="large float32 matrices with a common offset (torch.cdist's matrix-multiplication mode)")
    X = dist_to_matrix(D)
    A = Krum(n_byzantine=f, n_selected=k)
    if X is not None:
        out_w = A.weighting(t64(X)).numpy()
        how = "euclidean realisation of the distance matrix"
    else:
        with patched(torch, "cdist", lambda a, b, **kw: t64(D)):
            out_w = A.weighting(torch.zeros(m, 1, dtype=torch.float64)).numpy()
        how = "torch.cdist stubbed to return the (non-Euclidean) counterexample distances"
    scores = [sum(sorted(D[i][j] for j in range(m) if j != i)[:m - f - 2]) for i in range(m)]
    sel = [i for i in range(m) if out_w[i] > 0]
    bad = []
    if len(sel) != k or not np.allclose(out_w[sel], 1.0 / k):
        bad.append("weights are not 1/k on k rows")
    for i in sel:
        for j in range(m):
            if j not in sel and scores[i] > scores[j] + 1e-9 * max(1.0, abs(scores[j])):
                bad.append(f"row {i} selected although row {j} has a smaller score")
    return dict(reproduced=bool(bad), why=bad[:3], weights=out_w.tolist(), scores=scores, how=how)


@handler("krum_reject")
def r_krum_reject(c):
    from torchjd.aggregation import Krum
    return expect_value_error(lambda: Krum(int(c["f"]), int(c["k"]))(torch.zeros(int(c["m"]), 2, dtype=torch.float64)))


@handler("krum_ctor")
def r_krum_ctor(c):
    from torchjd.aggregation import Krum
    return expect_value_error(lambda: Krum(n_byzantine=int(c["n_byzantine"]), n_selected=int(c["n_selected"])))


