"""(library part) Replay of a solver counterexample on the REAL stack (real torch, real numpy/quadprog/cvxpy, real torchjd from
/repo/src).  Run with /venv/bin/python.  Prints one line `REPLAY {json}`; `reproduced: true` means the property
clause named in the counterexample is violated by the real code on the concrete input (with a float tolerance
far below the size of the modelled discrepancy).  Each handler recomputes the clause with an independent
numpy/python reference - it does not trust the values predicted by the model."""
from __future__ import annotations

import itertools
import json
import math
import os
import sys
from fractions import Fraction

sys.path.insert(0, os.path.join(os.environ.get("VERIF_REPO", "/repo"), "src"))
sys.path.insert(0, os.path.dirname(os.path.abspath(__file__)))
import numpy as np
import torch

TOL = 1e-6


def num(x):
    if isinstance(x, str):
        if x in ("nan", "inf", "-inf"):
            return float(x)
        return float(Fraction(x))
    if isinstance(x, dict):
        return float(Fraction(int(x["num"]), int(x["den"])))
    if isinstance(x, bool):
        return x
    return float(x)


def arr(x):
    if isinstance(x, np.ndarray):
        return x
    if isinstance(x, (list, tuple)):
        return [arr(y) for y in x]
    return num(x)


def close(a, b, tol=TOL, scale=None):
    """|a - b| <= tol * scale elementwise.  scale defaults to max(1, |a|, |b|); handlers of scale-sensitive clauses pass the magnitude of the
    INPUT (e.g. max |J_ij|), so that a counterexample living at scale 1e-5 is not drowned by an absolute tolerance while cancellation noise
    (which is relative to the input, not to the output) still is"""
    a, b = np.asarray(a, dtype=float), np.asarray(b, dtype=float)
    if a.shape != b.shape:
        return False
    if scale is None:
        scale = max(1.0, float(np.max(np.abs(a))) if a.size else 1.0, float(np.max(np.abs(b))) if b.size else 1.0)
    else:
        scale = max(float(scale), 1e-300)
    return bool(np.all(np.abs(a - b) <= tol * scale))


def gram_to_matrix(G):
    """some J (m x m) with J J^T = G"""
    G = np.asarray(arr(G), dtype=float)
    lam, V = np.linalg.eigh((G + G.T) / 2)
    lam = np.clip(lam, 0, None)
    return V @ np.diag(np.sqrt(lam))


def dist_to_matrix(D):
    """points realising a distance matrix (classical MDS); None if D is not Euclidean"""
    D = np.asarray(arr(D), dtype=float)
    m = D.shape[0]
    H = np.eye(m) - np.ones((m, m)) / m
    Bm = -0.5 * H @ (D ** 2) @ H
    lam, V = np.linalg.eigh((Bm + Bm.T) / 2)
    if lam.min() < -1e-9 * max(1.0, abs(lam).max()):
        return None
    X = V @ np.diag(np.sqrt(np.clip(lam, 0, None)))
    D2 = np.sqrt(((X[:, None, :] - X[None, :, :]) ** 2).sum(-1))
    if not np.allclose(D2, D, atol=1e-9 * max(1.0, D.max())):
        return None
    return X


FILL = ["generic"]  # how a structural counterexample (no values) is instantiated on the real stack: "generic" pairwise-different values, or "zeros"


SCALES = (1.0, 1e-3, 1e-6, 1e-9, 1e3, 1e6)


def scale_ladder(fn, J):
    """the solver's counterexample fixes the SHAPE of the input (directions, ratios); a fault whose effect depends on the absolute scale (an
    absolute epsilon) shows on the real stack only at the right magnitude, which an exact-arithmetic model has no reason to pick.  Run fn on
    the counterexample and on a short ladder of rescalings of it (float64, so 1e-9 .. 1e6 is far from under/overflow); fn returns a dict
    with 'reproduced'.  The first reproducing result is returned with the scale recorded."""
    first = None
    for sc in SCALES:
        r = fn(np.asarray(J, dtype=float) * sc)
        if first is None:
            first = r
        if r.get("reproduced"):
            if sc != 1.0:
                r = dict(r, input_scale=sc, found_by="the solver's counterexample rescaled by a power of 1000")
            return r
    return first


def t64(x):
    return torch.tensor(np.asarray(x, dtype=float), dtype=torch.float64)


class patched:
    def __init__(self, obj, name, new):
        self.obj, self.name, self.new = obj, name, new

    def __enter__(self):
        self.old = getattr(self.obj, self.name)
        setattr(self.obj, self.name, self.new)

    def __exit__(self, *a):
        setattr(self.obj, self.name, self.old)


class FixedStream:
    """stand-in for torch.rand under a fixed seed: the k-th number drawn after reset() is always the same (the counterexample's draws first,
    then a fixed pseudo-random tail), whatever shapes are requested"""

    def __init__(self, values):
        tail = np.random.default_rng(12345).uniform(0.05, 0.95, size=4096)
        self.stream = np.concatenate([np.asarray(values, dtype=float).reshape(-1), tail])
        self.pos = 0

    def reset(self):
        self.pos = 0

    def __call__(self, *shape, dtype=None, device=None, **kw):
        if len(shape) == 1 and not isinstance(shape[0], int):
            shape = tuple(shape[0])
        n = int(np.prod(shape)) if shape else 1
        out = self.stream[self.pos:self.pos + n]
        self.pos += n
        return torch.tensor(out, dtype=dtype or torch.float64).reshape(tuple(shape))


HANDLERS = {}


def handler(kind):
    def deco(f):
        HANDLERS[kind] = f
        return f
    return deco


def expect_value_error(fn):
    try:
        fn()
    except ValueError:
        return dict(reproduced=False, note="ValueError raised as required")
    except Exception as e:  # noqa
        return dict(reproduced=True, note=f"raised {type(e).__name__} instead of ValueError: {e}")
    return dict(reproduced=True, note="no exception raised")


