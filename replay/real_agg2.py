"""replay handlers for C04 / C08 / C09 (real stack)."""
import itertools

import numpy as np
import torch

from _lib import handler, arr, num, close, patched, gram_to_matrix, t64, scale_ladder
from real_agg import make_agg, qp_reference


def _pvec(c, key, m):
    v = c.get(key)
    return None if v is None else [num(x) for x in v]


def _min_norm_value(G):
    """min a^T G a over the simplex, exactly: on every face the minimiser solves a linear system (KKT with the sum constraint); the minimum over
    the faces whose solution is feasible is the answer (every vertex is feasible, so the set is never empty)"""
    m = G.shape[0]
    sc = float(np.abs(G).max())
    if sc == 0.0:
        return 0.0
    if sc != 1.0:
        return sc * _min_norm_value(G / sc)  # the KKT systems mix entries of G with ones: solve them at unit scale
    best = min(float(G[i, i]) for i in range(m))
    for k in range(2, m + 1):
        for S in itertools.combinations(range(m), k):
            K = np.zeros((k + 1, k + 1))
            K[:k, :k] = G[np.ix_(S, S)]
            K[:k, k] = K[k, :k] = 1.0
            rhs = np.zeros(k + 1)
            rhs[k] = 1.0
            sol = np.linalg.lstsq(K, rhs, rcond=None)[0][:k]
            if np.all(sol >= -1e-12) and abs(sol.sum() - 1) < 1e-9:
                best = min(best, float(sol @ G[np.ix_(S, S)] @ sol))
    return max(best, 0.0)


@handler("non_conflict")
def r_non_conflict(c):
    J = gram_to_matrix(c["G"])
    m = J.shape[0]
    G = J @ J.T
    s = np.linalg.svd(J, compute_uv=False).max()
    agg = c["agg"]
    if agg in ("upgrad", "dualproj"):
        eps, reg = num(c["norm_eps"]), num(c["reg_eps"])
        A = make_agg(agg, m, dict(norm_eps=eps, reg_eps=reg), c.get("u") if c.get("pref") else None)
        w = A.weighting(t64(J)).numpy()
        slack = G @ w + reg * s * s * w
        bad = not bool(np.all(slack >= -1e-7 * max(abs(G).max(), 1e-300)))
        return dict(reproduced=bad, Gw=(G @ w).tolist(), allowance=(reg * s * s * w).tolist())
    if agg in ("mgda", "mgda_rate"):
        def run(J):
            G = J @ J.T
            s = np.linalg.svd(J, compute_uv=False).max()
            A = make_agg("mgda", m, dict(epsilon=num(c.get("epsilon", 0)), max_iters=int(c["iters"])))
            a = A.weighting(t64(J)).numpy()
            qb = _min_norm_value(G)
            qa = float(a @ G @ a)
            # comparisons are written so that a nan result counts as a violation (nan is not ">= -allowance")
            if agg == "mgda_rate":
                return dict(reproduced=not bool(qa - qb <= 8 * s * s / (int(c["iters"]) + 2) + 1e-9 * s * s), qa=qa, qb=qb, J=J.tolist())
            allow = s * np.sqrt(max(qa - qb, 0.0)) if qa == qa else 0.0
            bad = not bool(np.all(G @ a >= -allow - 1e-6 * max(abs(G).max(), 1e-300)))
            return dict(reproduced=bad, Ga=(G @ a).tolist(), allowance=float(allow), J=J.tolist())
        return scale_ladder(run, J)
    if agg == "cagrad":
        A = make_agg("cagrad", m, dict(c=num(c["c"]), norm_eps=num(c["norm_eps"])))
        out = A(t64(J)).numpy()
        bad = not bool(np.all(J @ out >= -1e-4 * max(abs(G).max(), 1e-300)))
        return dict(reproduced=bad, J_A=(J @ out).tolist())
    raise KeyError(agg)


def _unstable(A, J, rng):
    """is A discontinuous at J?  A relative perturbation E of 1e-9 (multiplicative: exact zeros stay exact) and its opposite -E give
    macroscopically different results exactly when a tie or a threshold is being decided by rounding (to first order the tied scores are
    ordered oppositely under E and -E); such a matrix is no witness for anything."""
    for _ in range(3):
        E = 1e-9 * rng.standard_normal(J.shape)
        outs = []
        for sgn in (1, -1):
            torch.manual_seed(3)
            outs.append(A(t64(J * (1 + sgn * E))).numpy())
        if not close(outs[0], outs[1], 1e-4, scale=max(np.abs(J).max(), 1e-300)):
            return True
    return False


@handler("gram_only_read")
def r_gram_only(c):
    """'the weights are a function of the Gramian' on the real stack: two matrices with the same Gramian (J and J Q) must give A(JQ) = A(J) Q"""
    m = int(c["m"])
    rng = np.random.default_rng(0)
    bad = []
    scales = [1.0, 1e-2, 1e-3, 3e-4, 1.5e-4, 9.9e-5, 9e-5, 8e-5, 7e-5, 6e-5, 3e-5, 1e-5, 1e-8, 1e3, 1e6]
    name = c["agg"]
    params = dict(f=0 if m == 3 else 1, k=1) if name == "krum" else {}
    trial = 0
    # hand-built looking matrices: entries in {-1, 0, 1} (exact zero columns, columns summing to zero, duplicated rows ...)
    for _ in range(300):
        n = m + 1
        J = rng.integers(-1, 2, size=(m, n)).astype(float)
        if not J.any():
            continue
        Q, _r = np.linalg.qr(rng.normal(size=(n, n)))
        vec = list(rng.uniform(0.2, 1.0, size=m)) if name in ("constant", "dualproj") else None
        A = make_agg(name, m, params, vec)
        torch.manual_seed(3)
        o1 = A(t64(J)).numpy()
        torch.manual_seed(3)
        o2 = A(t64(J @ Q)).numpy()
        if not close(o2, o1 @ Q, 1e-4 if name == "cagrad" else 1e-6):
            if _unstable(A, J, rng):
                continue  # a tie (equal scores / equal distances) broken by rounding: A is discontinuous at J, nothing can be concluded from this matrix
            bad.append(f"integer matrix {J.tolist()}: A(JQ) != A(J)Q : {o2.tolist()} vs {(o1 @ Q).tolist()}")
            break
    for sc in scales:
        for dist in ("normal", "uniform", "conflict"):
            for _ in range(3):
                trial += 1
                n = m + 1
                if dist == "normal":
                    J = rng.normal(size=(m, n)) * sc
                elif dist == "uniform":
                    J = rng.uniform(-1, 1, size=(m, n)) * sc
                else:
                    J = rng.uniform(-1, 1, size=(m, n)) * sc
                    if m > 1:
                        J[1] = -J[0] + 0.3 * J[1]
                Q, _ = np.linalg.qr(rng.normal(size=(n, n)))
                vec = list(rng.uniform(0.2, 1.0, size=m)) if name in ("constant", "dualproj") else None
                A = make_agg(name, m, params, vec)
                torch.manual_seed(3)
                o1 = A(t64(J)).numpy()
                torch.manual_seed(3)
                o2 = A(t64(J @ Q)).numpy()
                if not close(o2 / sc, (o1 @ Q) / sc, 1e-4 if name == "cagrad" else 1e-6) and not _unstable(A, J, rng):
                    bad.append(f"trial {trial} (scale {sc}, {dist}): A(JQ) != A(J)Q : {(o2 / sc).tolist()} vs {((o1 @ Q) / sc).tolist()}")
                if len(bad) >= 2:
                    break
            if len(bad) >= 2:
                break
        if len(bad) >= 2:
            break
    return dict(reproduced=bool(bad), why=bad[:2], note=c.get("what"))


@handler("orthogonal")
def r_orthogonal(c):
    J = np.asarray(arr(c["J"]), dtype=float)
    Q = np.asarray(arr(c["Q"]), dtype=float)
    A = make_agg("config", J.shape[0], None, c.get("pref"))
    o1, o2 = A(t64(J)).numpy(), A(t64(J @ Q)).numpy()
    return dict(reproduced=not close(o2, o1 @ Q, 1e-6), A_J_Q=(o1 @ Q).tolist(), A_JQ=o2.tolist())


@handler("columns")
def r_columns(c):
    J = np.asarray(arr(c["J"]), dtype=float)
    m, n = J.shape
    perm = [int(i) for i in c["perm"]]
    pos = int(c["zero_pos"])
    bad = []
    trims = range((m - 1) // 2 + 1) if c["agg"] == "trimmed_mean" else [None]
    for b in trims:
        A = make_agg("trimmed_mean", m, dict(b=b)) if c["agg"] == "trimmed_mean" else make_agg("config", m)
        o = A(t64(J)).numpy()
        op = A(t64(J[:, perm])).numpy()
        Jz = np.insert(J, pos, 0.0, axis=1)
        oz = A(t64(Jz)).numpy()
        if not close(op, o[perm], 1e-6):
            bad.append("column permutation")
        if not close(oz, np.insert(o, pos, 0.0), 1e-6):
            bad.append("zero column insertion")
    return dict(reproduced=bool(bad), why=bad[:2])


def _scaled_runs(A, J, c1, c2, a, b, seed=True):
    outs = []
    for cc in (c1, c2, a * c1 + b * c2):
        if seed:
            torch.manual_seed(0)
        outs.append(A(t64(np.diag(cc) @ J)).numpy())
    return outs


@handler("scaling_linear")
def r_scaling(c):
    J = gram_to_matrix(c["G"])
    m = J.shape[0]
    c1, c2 = np.asarray(arr(c["c1"]), dtype=float), np.asarray(arr(c["c2"]), dtype=float)
    a, b = num(c["a"]), num(c["b"])
    A = make_agg(c["agg"], m, None, c.get("cw") if c["agg"] == "constant" else None)
    if c["agg"] == "pcgrad":
        # the same projection orders for the three runs: fix the stream
        pass
    o1, o2, o3 = _scaled_runs(A, J, c1, c2, a, b)
    sc = np.abs(J).max() * max(np.max(a * c1 + b * c2), 1e-300)
    if close(o3, a * o1 + b * o2, 1e-6, scale=sc) and c["agg"] == "config":
        # the model's pinv is an arbitrary kernel, so the DIRECTIONS of its rows need not be a witness for the real pinv; what the solver
        # pinned down are the row norms and the scalings.  Keep those, try a fixed list of generic row directions (full rank, all signs).
        norms = np.linalg.norm(J, axis=1)
        n = J.shape[1]
        rng = np.random.default_rng(20240909)
        for k in range(40):
            D = rng.standard_normal((m, n))
            D /= np.linalg.norm(D, axis=1, keepdims=True)
            Jv = D * norms[:, None]
            p1, p2, p3 = _scaled_runs(A, Jv, c1, c2, a, b)
            scv = np.abs(Jv).max() * max(np.max(a * c1 + b * c2), 1e-300)
            if not close(p3, a * p1 + b * p2, 1e-6, scale=scv):
                return dict(reproduced=True, lhs=p3.tolist(), rhs=(a * p1 + b * p2).tolist(), J=Jv.tolist(),
                            found_by="row norms and scalings of the solver's counterexample, generic row directions")
    return dict(reproduced=not close(o3, a * o1 + b * o2, 1e-6, scale=sc), lhs=o3.tolist(), rhs=(a * o1 + b * o2).tolist())


@handler("scaling_linear_entry")
def r_scaling_entry(c):
    J = np.asarray(arr(c["J"]), dtype=float)
    m = J.shape[0]
    c1, c2 = np.asarray(arr(c["c1"]), dtype=float), np.asarray(arr(c["c2"]), dtype=float)
    a, b = num(c["a"]), num(c["b"])
    vec = c.get("pref") if c["agg"] == "config" else (c.get("cw") if c["agg"] == "constant" else None)
    A = make_agg(c["agg"], m, None, vec)
    o1, o2, o3 = _scaled_runs(A, J, c1, c2, a, b)
    sc = np.abs(J).max() * max(np.max(a * c1 + b * c2), 1e-300)
    if close(o3, a * o1 + b * o2, 1e-6, scale=sc) and c["agg"] == "config":
        # the model's pinv is an arbitrary kernel, so the DIRECTIONS of its rows need not be a witness for the real pinv; what the solver
        # pinned down are the row norms and the scalings.  Keep those, try a fixed list of generic row directions (full rank, all signs).
        norms = np.linalg.norm(J, axis=1)
        n = J.shape[1]
        rng = np.random.default_rng(20240909)
        for k in range(40):
            D = rng.standard_normal((m, n))
            D /= np.linalg.norm(D, axis=1, keepdims=True)
            Jv = D * norms[:, None]
            p1, p2, p3 = _scaled_runs(A, Jv, c1, c2, a, b)
            scv = np.abs(Jv).max() * max(np.max(a * c1 + b * c2), 1e-300)
            if not close(p3, a * p1 + b * p2, 1e-6, scale=scv):
                return dict(reproduced=True, lhs=p3.tolist(), rhs=(a * p1 + b * p2).tolist(), J=Jv.tolist(),
                            found_by="row norms and scalings of the solver's counterexample, generic row directions")
    return dict(reproduced=not close(o3, a * o1 + b * o2, 1e-6, scale=sc), lhs=o3.tolist(), rhs=(a * o1 + b * o2).tolist())
