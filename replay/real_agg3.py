"""replay handler: zero-column insertion for Gram-only aggregators (C08)."""
import numpy as np
import torch

from _lib import handler, arr, num, close, gram_to_matrix, dist_to_matrix, t64
from real_agg import _agg_from_c11


@handler("zero_columns")
def r_zero_columns(c):
    m = int(c["m"])
    if "G" in c:
        J = gram_to_matrix(c["G"])
    else:
        X = dist_to_matrix(np.asarray(arr(c["dist"]), dtype=float))
        J = X if X is not None else np.eye(m)
    A = _agg_from_c11(c, m)
    bad = []
    for extra in (1, 7, int(c.get("n2", 1000)), 50000):
        Jz = np.concatenate([J, np.zeros((m, extra))], axis=1)
        torch.manual_seed(0)
        o1 = A(t64(J)).numpy()
        torch.manual_seed(0)
        o2 = A(t64(Jz)).numpy()
        if not close(o2[:J.shape[1]], o1, 1e-6) or np.any(o2[J.shape[1]:] != 0):
            bad.append(f"{extra} zero columns appended: {o2[:J.shape[1]].tolist()} vs {o1.tolist()}")
    # zero columns INSERTED IN FRONT (the informative columns come last), also beyond 2**16 columns where block-wise code paths start
    for extra in (3, 70000, 140001):
        Jz = np.concatenate([np.zeros((m, extra)), J], axis=1)
        torch.manual_seed(0)
        o1 = A(t64(J)).numpy()
        torch.manual_seed(0)
        o2 = A(t64(Jz)).numpy()
        if not close(o2[extra:], o1, 1e-6) or np.any(o2[:extra] != 0):
            bad.append(f"{extra} zero columns inserted in front: {o2[extra:].tolist()} vs {o1.tolist()}")
    return dict(reproduced=bool(bad), why=bad[:2])
