"""replay handlers for C12 / C14 / C15 (real stack)."""
import itertools

import numpy as np
import torch

from _lib import handler, arr, num, close, expect_value_error
from real_autojac import RealProg, from_torchjd


def _leaves_reachable(prog, roots, excluded=()):
    """independent reachability on the REAL graph objects: walk grad_fn.next_functions, never THROUGH excluded nodes"""
    exc = {prog[e].grad_fn for e in excluded}
    seen, out, stack = set(), set(), [prog[r].grad_fn for r in roots]
    while stack:
        n = stack.pop()
        if n is None or n in seen or n in exc:
            continue
        seen.add(n)
        if hasattr(n, "variable"):
            out.add(id(n.variable))
        for ch, _ in n.next_functions:
            stack.append(ch)
    return out


@handler("default_inputs")
def r_default_inputs(c):
    from torchjd.autojac import backward, mtl_backward
    from torchjd.aggregation import Constant
    spec = c["spec"]
    names = [l[0] for l in spec["leaves"]]
    probs = []
    def grads(p):
        return {n: (None if p[n].grad is None else p[n].grad.clone().numpy()) for n in names}
    if c["mode"] == "backward":
        outs = c["outputs"]
        p1, p2 = RealProg(spec, c.get("jac") or {}), RealProg(spec, c.get("jac") or {})
        rows = sum(p1[n].numel() for n in outs)
        w = torch.tensor(np.asarray(arr(c["w"]), dtype=float)[:rows] if c.get("w") else np.arange(1, rows + 1, dtype=float), dtype=torch.float64)
        ref_ids = _leaves_reachable(p2, outs)
        ref = [n for n in names if id(p2[n]) in ref_ids and p2[n].requires_grad]
        backward([p1[n] for n in outs], Constant(w))
        backward([p2[n] for n in outs], Constant(w), inputs=[p2[n] for n in ref])
        g1, g2 = grads(p1), grads(p2)
    else:
        losses, feats = c["losses"], c["features"]
        p1, p2 = RealProg(spec, c.get("jac") or {}), RealProg(spec, c.get("jac") or {})
        w = torch.tensor(np.asarray(arr(c["w"]), dtype=float) if c.get("w") else np.arange(1, len(losses) + 1, dtype=float), dtype=torch.float64)
        sh_ids = _leaves_reachable(p2, feats)
        tk_ids = [_leaves_reachable(p2, [l], excluded=feats) for l in losses]
        shared = [n for n in names if id(p2[n]) in sh_ids and p2[n].requires_grad]
        tasks = [[n for n in names if id(p2[n]) in ids and p2[n].requires_grad] for ids in tk_ids]
        overlap = bool(set(shared) & {n for t in tasks for n in t})
        try:
            mtl_backward([p1[l] for l in losses], [p1[f] for f in feats], Constant(w))
            raised = False
        except ValueError:
            raised = True
        except RuntimeError:
            raised = "late"
        if raised != overlap:
            return dict(reproduced=True, why=[f"defaulted call {'rejected' if raised else 'accepted'} although the default sets {'overlap' if overlap else 'do not overlap'}"])
        if raised:
            return dict(reproduced=False)
        mtl_backward([p2[l] for l in losses], [p2[f] for f in feats], Constant(w), tasks_params=[[p2[n] for n in t] for t in tasks], shared_params=[p2[n] for n in shared])
        g1, g2 = grads(p1), grads(p2)
        # mixed call: shared_params defaulted, tasks_params explicit and partial (first task lists nothing)
        p3, p4 = RealProg(spec, c.get("jac") or {}), RealProg(spec, c.get("jac") or {})
        part = lambda p: [[]] + [[p[n] for n in t] for t in tasks[1:]]
        mtl_backward([p3[l] for l in losses], [p3[f] for f in feats], Constant(w), tasks_params=part(p3))
        mtl_backward([p4[l] for l in losses], [p4[f] for f in feats], Constant(w), tasks_params=part(p4), shared_params=[p4[n] for n in shared])
        g3, g4 = grads(p3), grads(p4)
        for n in names:
            za = np.zeros(tuple(p3[n].shape)) if g3[n] is None else g3[n]
            zb = np.zeros(tuple(p3[n].shape)) if g4[n] is None else g4[n]
            if not close(za, zb) or ((g3[n] is None) != (g4[n] is None) and n in tasks[0]):
                probs.append(f"explicit (partial) tasks_params with defaulted shared_params: .grad of {n} is {None if g3[n] is None else g3[n].tolist()}, "
                             f"expected {None if g4[n] is None else g4[n].tolist()}")
    for n in names:
        a, b = g1[n], g2[n]
        za = np.zeros(tuple(p1[n].shape)) if a is None else a
        zb = np.zeros(tuple(p1[n].shape)) if b is None else b
        if not close(za, zb):
            probs.append(f".grad of {n}: defaulted {None if a is None else a.tolist()} vs explicit {None if b is None else b.tolist()}")
        elif (a is None) != (b is None) and b is not None:
            # a leaf of the reference set receives a .grad from the explicit call (zeros / an empty tensor if nothing flows): the defaulted call must create it too
            probs.append(f".grad of {n}: the explicit call created it ({b.tolist()}), the defaulted call left it None")
    return dict(reproduced=bool(probs), why=probs[:3])


@handler("walk_complexity")
def r_walk_complexity(c):
    """stacked diamonds on the real stack: the default-parameter discovery must return; exponential behaviour shows as a blow-up between depth 11 and 22"""
    import signal, time
    from torchjd.autojac._utils import _get_leaf_tensors
    def build(d):
        p = torch.tensor([0.3, -0.2], requires_grad=True)
        h = p
        for _ in range(d):
            h = 0.5 * h + 0.1 * torch.tanh(h)
        return p, h
    def timed(d, limit):
        p, h = build(d)
        def onalarm(*a):
            raise TimeoutError()
        signal.signal(signal.SIGALRM, onalarm)
        signal.alarm(limit)
        t0 = time.perf_counter()
        try:
            leaves = _get_leaf_tensors([h], excluded=[])
            ok = leaves == {p}
            return time.perf_counter() - t0, ok
        except TimeoutError:
            return float("inf"), True
        finally:
            signal.alarm(0)
    t1, ok1 = timed(11, 30)
    t2, ok2 = timed(22, 30)
    bad = []
    if not (ok1 and ok2):
        bad.append("the discovery returned a wrong leaf set")
    if t2 == float("inf") or (t2 > 1.0 and t2 > 100 * max(t1, 1e-4)):
        bad.append(f"default-parameter discovery on 22 stacked diamonds took {'more than 30' if t2 == float('inf') else round(t2, 2)} s ({round(t1, 4)} s on 11): exponential in the depth")
    return dict(reproduced=bool(bad), why=bad, t11=t1, t22=None if t2 == float("inf") else t2)


@handler("mixed_defaults")
def r_mixed_defaults(c):
    from torchjd.autojac import mtl_backward
    from torchjd.aggregation import Constant
    spec = c["spec"]
    names = [l[0] for l in spec["leaves"]]
    losses, feats, explicit = c["losses"], c["features"], c["explicit"]
    pa, pb = RealProg(spec, c.get("jac") or {}), RealProg(spec, c.get("jac") or {})
    w = torch.tensor(np.asarray(arr(c["w"]), dtype=float) if c.get("w") else np.arange(1, len(losses) + 1, dtype=float), dtype=torch.float64)
    sh_ids = _leaves_reachable(pb, feats)
    tk_ids = [_leaves_reachable(pb, [l], excluded=feats) for l in losses]
    shared = [n for n in names if id(pb[n]) in sh_ids and pb[n].requires_grad]
    tasks = [[n for n in names if id(pb[n]) in ids and pb[n].requires_grad] for ids in tk_ids]
    if c["side"] == "tasks_explicit":
        kw_a = dict(tasks_params=[[pa[n] for n in t] for t in explicit])
        kw_b = dict(tasks_params=[[pb[n] for n in t] for t in explicit], shared_params=[pb[n] for n in shared])
    else:
        kw_a = dict(shared_params=[pa[n] for n in explicit])
        kw_b = dict(shared_params=[pb[n] for n in explicit], tasks_params=[[pb[n] for n in t] for t in tasks])
    def run(p, kw):
        try:
            mtl_backward([p[l] for l in losses], [p[f] for f in feats], Constant(w), **kw)
            return "ok"
        except ValueError:
            return "ValueError"
        except RuntimeError:
            return "RuntimeError"
    ra, rb = run(pa, kw_a), run(pb, kw_b)
    probs = []
    if ra != rb:
        probs.append(f"half-defaulted call: {ra}; the same call with the defaulted argument written out: {rb}")
    for n in names:
        a, b = pa[n].grad, pb[n].grad
        if (a is None) != (b is None) or (a is not None and not close(a.numpy(), b.numpy())):
            probs.append(f".grad of {n}: half-defaulted {None if a is None else a.tolist()} vs explicit {None if b is None else b.tolist()}")
    return dict(reproduced=bool(probs), why=probs[:3])


@handler("typed")
def r_typed(c):
    """C14 is purely structural and does not involve torch semantics: the same scenario is re-executed on the real stack"""
    from torchjd.autojac._transform import (Composition, Conjunction, Transform, Init, Select, Diagonalize, Accumulate, TensorDict, Gradients, Jacobians,
                                            GradientVectors, JacobianMatrices, EmptyTensorDict)
    keys = [torch.zeros((), requires_grad=True), torch.zeros(2, requires_grad=True), torch.zeros(1, 2, requires_grad=True)]
    TYPES = dict(EmptyTensorDict=EmptyTensorDict, Gradients=Gradients, Jacobians=Jacobians, GradientVectors=GradientVectors, JacobianMatrices=JacobianMatrices)

    def val(key, typ, rows=2):
        if typ in (Gradients, EmptyTensorDict):
            return torch.zeros(key.shape)
        if typ is Jacobians:
            return torch.zeros((rows,) + tuple(key.shape))
        if typ is GradientVectors:
            return torch.zeros(key.numel())
        return torch.zeros(rows, key.numel())

    class Stub(Transform):
        def __init__(self, req, out, typ):
            self.req, self.out, self.typ = set(req), set(out), typ
        def _compute(self, inp):
            return self.typ({keys[i]: val(keys[i], self.typ) for i in self.out}) if self.out else EmptyTensorDict()
        required_keys = property(lambda self: {keys[i] for i in self.req})
        output_keys = property(lambda self: {keys[i] for i in self.out})

    w = c["which"]
    if w == "composition":
        inner, outer = Stub(c["r1"], c["o1"], Gradients if c["o1"] else EmptyTensorDict), Stub(c["r2"], c["o2"], Gradients if c["o2"] else EmptyTensorDict)
        try:
            outer << inner
            built = True
        except ValueError:
            built = False
        return dict(reproduced=built != (sorted(c["r2"]) == sorted(c["o1"])))
    if w == "conjunction":
        ts = [Stub(r, o, TYPES[t]) for r, o, t in zip(c["reqs"], c["outs"], c["types"])]
        try:
            Conjunction(ts)
            built = True
        except ValueError:
            built = False
        same = all(sorted(r) == sorted(c["reqs"][0]) for r in c["reqs"])
        disj = sum(len(o) for o in c["outs"]) == len(set().union(*[set(o) for o in c["outs"]]))
        if built != (same and disj):
            return dict(reproduced=True, why=["construction accepted/rejected against the key rule"])
        if not built:
            return dict(reproduced=False)
        # typed, possibly key-less members: the result must have the most specific common type
        class TStub(Stub):
            def _compute(self, inp):
                return self.typ({keys[i]: val(keys[i], self.typ) for i in self.out}) if (self.out or self.typ is not EmptyTensorDict) else EmptyTensorDict()
        ts = [TStub(r, o, TYPES[t]) for r, o, t in zip(c["reqs"], c["outs"], c["types"])]
        conj = Conjunction(ts)
        inp = Gradients({keys[i]: val(keys[i], Gradients) for i in c["reqs"][0]}) if c["reqs"][0] else EmptyTensorDict()
        res = conj(inp)
        def lca(a, b):
            for cand in a.mro()[:-1]:
                if issubclass(b, cand):
                    return cand
            return TensorDict
        exp = EmptyTensorDict
        for t in c["types"]:
            exp = lca(exp, TYPES[t])
        ok = type(res) is exp and set(res.keys()) == {keys[i] for o in c["outs"] for i in o}
        return dict(reproduced=not ok, why=[] if ok else [f"result type {type(res).__name__}, most specific common type of the parts is {exp.__name__}"])
    if w == "conjunction_rows":
        class RStub(Stub):
            def __init__(self, req, out, rows):
                Stub.__init__(self, req, out, Jacobians)
                self.rows = rows
            def _compute(self, inp):
                return Jacobians({keys[i]: val(keys[i], Jacobians, rows=self.rows) for i in self.out})
        conj = Conjunction([RStub(c["req"], c["outs"][0], int(c["rows"][0])), RStub(c["req"], c["outs"][1], int(c["rows"][1]))])
        inp = Gradients({keys[i]: val(keys[i], Gradients) for i in c["req"]}) if c["req"] else EmptyTensorDict()
        try:
            res = conj(inp)
            ran = True
        except ValueError:
            ran = False
        ok = ran == (c["rows"][0] == c["rows"][1])
        return dict(reproduced=not ok, why=[] if ok else [f"conjunction of Jacobians with {c['rows'][0]} and {c['rows'][1]} rows was {'accepted: ' + type(res).__name__ if ran else 'rejected'}"])
    if w == "tensor_dict":
        typ = TYPES[c["type"]]
        d = {torch.zeros(tuple(c["key_shape"])): torch.zeros(tuple(c["value_shape"]))}
        if c.get("second_value_shape") is not None:
            d[torch.zeros(2)] = torch.zeros(tuple(c["second_value_shape"]))
        def ok_pair(kshape, vshape):
            n = int(np.prod(kshape)) if kshape else 1
            if typ is Gradients:
                return tuple(vshape) == tuple(kshape)
            if typ is Jacobians:
                return len(vshape) >= 1 and tuple(vshape[1:]) == tuple(kshape)
            if typ is GradientVectors:
                return len(vshape) == 1 and vshape[0] == n
            if typ is JacobianMatrices:
                return len(vshape) == 2 and vshape[1] == n
            return False
        ks, vs, vs2 = tuple(c["key_shape"]), tuple(c["value_shape"]), c.get("second_value_shape")
        expect = ok_pair(ks, vs) and (vs2 is None or ok_pair((2,), tuple(vs2)))
        if expect and vs2 is not None and typ in (Jacobians, JacobianMatrices):
            expect = vs[0] == vs2[0]
        if typ is EmptyTensorDict:
            expect = False
        try:
            td = typ(d)
            built = True
        except (ValueError, IndexError):
            built = False
        if built != expect:
            return dict(reproduced=True, why=[f"{c['type']} with key shape {ks} and value shape {vs} (second value {vs2}) was {'accepted' if built else 'rejected'}"])
        if built:
            for m in (lambda: td.__setitem__(1, 2), lambda: td.update({}), lambda: td.clear()):
                try:
                    m()
                    return dict(reproduced=True, why=["mutation accepted"])
                except TypeError:
                    pass
        return dict(reproduced=False)
    if w == "terms":
        # the same term, rebuilt from the REAL transforms with the recorded sequence of free choices
        nkeys, depth = int(c.get("nkeys", 3)), int(c["depth"])
        ks = keys[:nkeys]
        SUB = [frozenset(s_) for r in range(4) for s_ in itertools.combinations(range(3), r)]
        SUB = [x for x in SUB if all(i < nkeys for i in x)]
        script = iter(c["script"])
        class Rejected(Exception):
            pass
        def gen(d):
            kind = next(script)
            if kind == 0:
                sub = SUB[next(script)]
                return Init([ks[i] for i in sorted(sub)]), frozenset(), sub
            if kind == 1:
                sub = SUB[next(script)]
                return Diagonalize([ks[i] for i in sorted(sub)]), sub, sub
            if kind == 2:
                sub = SUB[next(script)]
                return Accumulate([ks[i] for i in sorted(sub)]), sub, frozenset()
            if kind == 3:
                sub = SUB[next(script)]
                sel = SUB[next(script)]
                if not sel <= sub:
                    try:
                        Select([ks[i] for i in sel], [ks[i] for i in sub])
                    except ValueError:
                        raise Rejected()
                    raise AssertionError(f"Select({sorted(sel)}, required={sorted(sub)}) accepted a non-subset")
                return Select([ks[i] for i in sel], [ks[i] for i in sub]), sub, sel
            a = gen(d - 1)
            b = gen(d - 1)
            if kind == 4:
                okc = a[1] == b[2]
                try:
                    t = a[0] << b[0]
                except ValueError:
                    if okc:
                        raise AssertionError("composition rejected although keys match")
                    raise Rejected()
                if not okc:
                    raise AssertionError("composition accepted although keys differ")
                return t, b[1], a[2]
            okc = a[1] == b[1] and not (a[2] & b[2])
            try:
                t = a[0] | b[0]
            except ValueError:
                if okc:
                    raise AssertionError("conjunction rejected although well formed")
                raise Rejected()
            if not okc:
                raise AssertionError("conjunction accepted although ill formed")
            return t, a[1], a[2] | b[2]
        try:
            t, req, out = gen(depth - 1)
        except Rejected:
            return dict(reproduced=False)
        except AssertionError as e:
            return dict(reproduced=True, why=[str(e)])
        except StopIteration:
            return dict(reproduced=None, error="the recorded choice script ended early")
        ok = t.required_keys == {ks[i] for i in req} and t.output_keys == {ks[i] for i in out}
        return dict(reproduced=not ok, why=[] if ok else [f"declared keys differ: required {len(t.required_keys)} / output {len(t.output_keys)}"])
    return dict(reproduced=None, error=f"no real-stack re-execution for typed/{w}")


@handler("transform")
def r_transform(c):
    from torchjd.autojac._transform import Grad, Jac, Gradients, Jacobians, Aggregate, Stack, Diagonalize, Init, EmptyTensorDict
    w = c["which"]
    if w in ("grad", "jac"):
        prog = RealProg(c["spec"], c["jac"])
        outs, ins = c["outputs"], c["inputs"]
        if w == "grad":
            cot = {n: torch.tensor(np.asarray(arr(c["cot"][n]), dtype=float), dtype=torch.float64).reshape(prog[n].shape) for n in outs}
            try:
                res = Grad([prog[n] for n in outs], [prog[n] for n in ins])(Gradients({prog[n]: cot[n] for n in outs}))
            except (RuntimeError, ValueError, TypeError, IndexError, KeyError) as e:
                return dict(reproduced=True, why=[f"Grad raises on a valid input (inputs {ins}, outputs {outs}): {type(e).__name__}: {str(e)[:200]}"])
            probs = []
            for n in ins:
                D = prog.total_jac(n)
                exp = np.zeros(prog[n].numel())
                for o in outs:
                    if o in D:
                        exp = exp + cot[o].reshape(-1).numpy() @ D[o]
                if not close(res[prog[n]].reshape(-1).numpy(), exp):
                    probs.append(f"Grad wrt {n} is not the vector-Jacobian product")
            return dict(reproduced=bool(probs), why=probs)
        Bn = int(c["batch"])
        cot = {n: torch.tensor(np.asarray(arr(c["cot"][n]), dtype=float), dtype=torch.float64).reshape((Bn,) + tuple(prog[n].shape)) for n in outs}
        try:
            res = Jac([prog[n] for n in outs], [prog[n] for n in ins], chunk_size=c.get("chunk"))(Jacobians({prog[n]: cot[n] for n in outs}))
        except (RuntimeError, ValueError, TypeError, IndexError, KeyError) as e:
            return dict(reproduced=True, why=[f"Jac raises on a valid input (inputs {ins}, outputs {outs}): {type(e).__name__}: {str(e)[:200]}"])
        probs = []
        for n in ins:
            D = prog.total_jac(n)
            exp = np.zeros((Bn, prog[n].numel()))
            for o in outs:
                if o in D:
                    exp = exp + cot[o].reshape(Bn, -1).numpy() @ D[o]
            if tuple(res[prog[n]].shape) != (Bn,) + tuple(prog[n].shape) or not close(res[prog[n]].reshape(Bn, -1).numpy(), exp):
                probs.append(f"Jac wrt {n} is not the row-wise vector-Jacobian product")
        return dict(reproduced=bool(probs), why=probs)
    if w == "aggregate":
        Agg = from_torchjd()
        s0, s1 = tuple(c["shapes"][0]), tuple(c["shapes"][1])
        k0, k1 = torch.zeros(s0, dtype=torch.float64), torch.zeros(s1, dtype=torch.float64)
        if c.get("k0_transposed"):
            k0 = torch.zeros(tuple(reversed(s0)), dtype=torch.float64).T  # same shape, non-contiguous layout
        m = int(c["rows"])
        rng = np.random.default_rng(1)
        jd = {k0: torch.tensor(rng.normal(size=(m,) + s0)), k1: torch.tensor(rng.normal(size=(m,) + s1))}
        order = [k0 if i == 0 else k1 for i in c["order"]]
        agg = Agg([])
        res = Aggregate(agg, order)(Jacobians(jd))
        if len(agg.seen) != 1:
            return dict(reproduced=True, why=[f"the aggregator was called {len(agg.seen)} times on a Jacobian of {m} row(s)"])
        M = agg.seen[0]
        exp = np.concatenate([jd[t].reshape(m, -1).numpy() for t in order], axis=1)
        v = np.arange(1, M.shape[1] + 1, dtype=float) * 0.37
        probs = [] if close(M, exp) else ["matrix is not the column concatenation in key order"]
        off = 0
        for t in order:
            n = t.numel()
            if not close(res[t].reshape(-1).numpy(), v[off:off + n]):
                probs.append("a key did not receive its own slice")
            off += n
        return dict(reproduced=bool(probs), why=probs)
    if w == "stack":
        from torchjd.autojac._transform import Transform
        dt = torch.float64 if c.get("dtype") == "float64" else torch.float32
        s0, s1 = tuple(c["shapes"][0]), tuple(c["shapes"][1])
        keys = [torch.zeros(s0, dtype=dt), torch.zeros(s1, dtype=dt)]
        rng = np.random.default_rng(2)
        dicts = []
        for ks in c["present"]:
            dicts.append({keys[j]: torch.tensor(rng.normal(size=keys[j].shape) / 3.0, dtype=dt).reshape(keys[j].shape) for j in ks})

        class Const(Transform):
            def __init__(self, d):
                self.d = Gradients(d)
            def _compute(self, inp):
                return self.d
            required_keys = property(lambda self: set())
            output_keys = property(lambda self: set(self.d.keys()))

        res = Stack([Const(d) for d in dicts])(EmptyTensorDict())
        probs = []
        used = sorted({j for p in c["present"] for j in p})
        if set(res.keys()) != {keys[j] for j in used}:
            probs.append("keys of the stacked dictionary")
        for j in used:
            key = keys[j]
            exp = np.stack([dicts[i][key].numpy() if key in dicts[i] else np.zeros(tuple(key.shape)) for i in range(len(dicts))])
            got = res[key]
            if got.dtype != dt:
                probs.append(f"stacked Jacobian has dtype {got.dtype} for {dt} gradients")
            if tuple(got.shape) != exp.shape or not close(got.numpy().astype(float), exp, 1e-12 if dt == torch.float64 else 1e-6):
                probs.append("row i is not transform i's gradient (zeros when absent)")
        return dict(reproduced=bool(probs), why=probs[:3])
    if w == "init_diag":
        shapes = [tuple(s) for s in c["shapes"]]
        keys = [torch.zeros(s, dtype=torch.float64) for s in shapes]
        vals = {k: torch.tensor(np.random.default_rng(i).normal(size=k.shape)) for i, k in enumerate(keys)}
        considered = [keys[i] for i in c["order"]]
        ini = Init(keys)(EmptyTensorDict())
        probs = [] if all(torch.equal(ini[k], torch.ones_like(k)) for k in keys) else ["Init is not ones"]
        dg = Diagonalize(considered)(Gradients(vals))
        total = sum(k.numel() for k in keys)
        off = 0
        for k in considered:
            n = k.numel()
            exp = np.zeros((total, n))
            for cc in range(n):
                exp[off + cc, cc] = vals[k].reshape(-1)[cc]
            if tuple(dg[k].shape) != (total,) + tuple(k.shape) or not close(dg[k].reshape(total, -1).numpy(), exp):
                probs.append("Diagonalize layout")
            off += n
        return dict(reproduced=bool(probs), why=probs)
    return dict(reproduced=None, error=f"no real-stack re-execution for transform/{w}")


@handler("default_inputs_extended")
def r_default_extended(c):
    """two defaulted calls on the same tensor object extended in place in between"""
    from torchjd.autojac import backward
    from torchjd.aggregation import Constant
    a = torch.tensor([1.0, 2.0], dtype=torch.float64, requires_grad=True)
    b = torch.tensor([3.0, -1.0], dtype=torch.float64, requires_grad=True)
    y = (a * torch.tensor([2.0, 5.0], dtype=torch.float64)).sum()
    w = Constant(torch.tensor([1.5], dtype=torch.float64))
    backward([y], w, retain_graph=True)
    y += (b * b).sum()
    backward([y], w, retain_graph=True)
    probs = []
    if b.grad is None or not close(b.grad.numpy(), 1.5 * 2 * b.detach().numpy()):
        probs.append(f"after `y += g(b)` the second defaulted backward(y) did not deposit d y / d b into b.grad (b.grad = {None if b.grad is None else b.grad.tolist()})")
    return dict(reproduced=bool(probs), why=probs)
