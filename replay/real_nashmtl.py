"""replay handler for C19 (NashMTL histories) on the real stack (real cvxpy / ECOS)."""
import warnings

import numpy as np
import torch

from _lib import handler, arr, num, close, gram_to_matrix

GA = [[3.0, 0.0], [0.0, 4.0]]
GB = [[3.0, 2.0], [2.0, 8.0]]


@handler("nashmtl_history")
def r_nash(c):
    import cvxpy as cp
    from torchjd.aggregation import NashMTL
    warnings.simplefilter("ignore")
    k, word, niter = int(c["k"]), c["word"], int(c.get("niter", 1))
    mx = num(c["max_norm"]) if c.get("max_norm") not in (None, 0) else (1.0 if c.get("max_norm") is None else 0.0)
    dt = torch.float32 if "32" in str(c.get("dtype", "float64")) else torch.float64
    Js = {"a": torch.tensor(gram_to_matrix(c.get("Ga") or GA), dtype=dt), "b": torch.tensor(gram_to_matrix(c.get("Gb") or GB), dtype=dt)}
    solves = [0]
    orig = cp.Problem.solve

    def counting(self, *a, **kw):
        solves[0] += 1
        return orig(self, *a, **kw)

    cp.Problem.solve = counting
    probs = []
    try:
        A = NashMTL(n_tasks=2, max_norm=mx, update_weights_every=k, optim_niter=niter)
        since, outs, suffix_start, last_alpha = 0, [], 0, None
        for i, ch in enumerate(word):
            if ch == "r":
                A.reset()
                since, suffix_start = 0, i + 1
                continue
            n0 = solves[0]
            try:
                out = A(Js[ch])
            except Exception as e:  # noqa
                return dict(reproduced=True, why=[f"call {i} raised {type(e).__name__}: {e}"], finding_key="nashmtl:reuse-branch-raises" if since % k != 0 else "nashmtl:compute-branch-raises")
            recompute = since % k == 0
            if (solves[0] > n0) != recompute:
                probs.append(f"call {i}: solver {'not ' if recompute else ''}invoked (calls since reset: {since}, update_weights_every={k})")
            if recompute:
                last_alpha = np.asarray(A.weighting.prvs_alpha, dtype=float).copy()
            exp = Js[ch].numpy().astype(float).T @ last_alpha
            if mx > 0 and np.linalg.norm(exp) > mx:
                exp = exp / np.linalg.norm(exp) * mx
            if not close(out.numpy().astype(float), exp, 1e-5 if dt == torch.float64 else 1e-3):
                probs.append(f"call {i}: output is not the last computed weights (rescaled to max_norm)")
            if mx > 0 and float(out.norm()) > mx * (1 + 1e-6):
                probs.append(f"call {i}: norm {float(out.norm())} > max_norm {mx}")
            outs.append((i, out.numpy()))
            since += 1
        if "r" in word:
            Bg = NashMTL(n_tasks=2, max_norm=mx, update_weights_every=k, optim_niter=niter)
            for i, ch in enumerate(word):
                if i < suffix_start:
                    continue
                ob = Bg(Js[ch]).numpy()
                oa = [o for (j, o) in outs if j == i][0]
                if not close(oa, ob, 1e-6):
                    probs.append(f"after reset(), call {i} differs from a fresh instance: {oa.tolist()} vs {ob.tolist()}")
    finally:
        cp.Problem.solve = orig
    return dict(reproduced=bool(probs), why=probs[:4])
