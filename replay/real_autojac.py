"""Real-stack twins of the symbolic autograd programs + replay handlers for the autojac properties.

Every symbolic op (arbitrary local Jacobians W[k][i]) has an exact twin in real torch: a custom autograd.Function
whose outputs are out_k = sum_i W[k][i] @ in_i.flatten().  Flags: `saves` (W kept via save_for_backward, so a second
traversal after a non-retaining one raises) and `vmap_ok` (generate_vmap_rule)."""
from __future__ import annotations

import itertools
import gc

import numpy as np
import torch

from _lib import handler, arr, num, close, patched, expect_value_error


def _mk_function(vmap_ok):
    class LinNode(torch.autograd.Function):
        generate_vmap_rule = vmap_ok

        @staticmethod
        def forward(meta, *inputs):
            outs = []
            for k, shape in enumerate(meta["out_shapes"]):
                acc = torch.zeros(int(np.prod(shape)) if shape else 1, dtype=meta["dtype"])
                for i, x in enumerate(inputs):
                    W = meta["W"].get((k, i))
                    if W is not None:
                        acc = acc + W @ x.reshape(-1)
                outs.append(acc.reshape(shape))
            return tuple(outs)

        @staticmethod
        def setup_context(ctx, inputs, output):
            meta = inputs[0]
            ctx.meta = dict(out_shapes=meta["out_shapes"], in_shapes=[tuple(x.shape) for x in inputs[1:]], keys=sorted(meta["W"]))
            ws = [meta["W"][k] for k in ctx.meta["keys"]]
            if meta["saves"]:
                ctx.save_for_backward(*ws)
                ctx.kept = None
            else:
                ctx.kept = ws

        @staticmethod
        def backward(ctx, *gos):
            ws = ctx.saved_tensors if ctx.kept is None else ctx.kept
            W = dict(zip(ctx.meta["keys"], ws))
            res = [None]
            for i, shape in enumerate(ctx.meta["in_shapes"]):
                acc = None
                for k, go in enumerate(gos):
                    Wk = W.get((k, i))
                    if Wk is None or go is None:
                        continue
                    term = Wk.T @ go.reshape(-1)
                    acc = term if acc is None else acc + term
                res.append(None if acc is None or not ctx.needs_input_grad[i + 1] else acc.reshape(shape))
            return tuple(res)

    return LinNode


_FUNCS = {True: _mk_function(True), False: _mk_function(False)}


class RealProg:
    def __init__(self, spec, jac, dtype=torch.float64, leaf_values=None):
        self.spec, self.t = spec, {}
        self.W = {}
        for (name, shape, rg) in spec["leaves"]:
            n = int(np.prod(shape)) if shape else 1
            vals = (leaf_values or {}).get(name)
            x = torch.tensor(vals if vals is not None else [0.5 + 0.25 * k for k in range(n)], dtype=dtype).reshape(tuple(shape))
            x.requires_grad_(bool(rg))
            self.t[name] = x
        for o in spec["ops"]:
            ins = [self.t[n] for n in o["inputs"]]
            W = {}
            for (k, i) in [tuple(d) for d in o["deps"]]:
                M = jac.get(f"{o['name']}:{k}:{i}")
                oshape = o["outs"][k][1]
                rows = int(np.prod(oshape)) if oshape else 1
                cols = ins[i].numel()
                if M is None:
                    M = np.zeros((rows, cols))
                W[(k, i)] = torch.tensor(np.asarray(arr(M), dtype=float).reshape(rows, cols), dtype=dtype)
            meta = dict(W=W, out_shapes=[tuple(s) for _, s in o["outs"]], saves=bool(o.get("saves", True)), dtype=dtype)
            outs = _FUNCS[bool(o.get("vmap_ok", True))].apply(meta, *ins)
            for (n, _), y in zip(o["outs"], outs):
                self.t[n] = y
            self.W[o["name"]] = W

    def __getitem__(self, n):
        return self.t[n]

    def total_jac(self, wrt):
        nw = self.t[wrt].numel()
        D = {wrt: np.eye(nw)}
        for o in self.spec["ops"]:
            W = self.W[o["name"]]
            for k, (oname, oshape) in enumerate(o["outs"]):
                if oname == wrt:
                    continue
                acc = None
                for i, iname in enumerate(o["inputs"]):
                    M = W.get((k, i))
                    if M is None or not self.t[iname].requires_grad or iname not in D:
                        continue
                    p = M.numpy() @ D[iname]
                    acc = p if acc is None else acc + p
                if acc is not None:
                    D[oname] = acc
        return D

    def jacobian(self, outs, ins):
        per = {n: self.total_jac(n) for n in ins}
        rows = []
        for on in outs:
            no = self.t[on].numel()
            blocks = [per[n].get(on, np.zeros((no, self.t[n].numel()))) for n in ins]
            rows.append(np.concatenate(blocks, axis=1) if blocks else np.zeros((no, 0)))
        return np.concatenate(rows, axis=0)


class TableAggregator(torch.nn.Module):
    """stand-in for the uninterpreted aggregator of the model: returns the vectors of the counterexample"""

    def __init__(self, vs, dtype=torch.float64, error=None):
        super().__init__()
        self.vs, self.seen, self.dtype, self.error = [np.asarray(arr(v), dtype=float) for v in vs], [], dtype, error

    def forward(self, M):
        self.seen.append(M.detach().clone().numpy())
        if self.error:
            raise ValueError(self.error)
        k = len(self.seen) - 1
        n = M.shape[1]
        v = self.vs[k] if k < len(self.vs) and len(self.vs[k]) == n else np.arange(1, n + 1, dtype=float) * 0.37 + k
        return torch.tensor(v, dtype=M.dtype)

    def __str__(self):
        return "Table"


def from_torchjd():
    from torchjd.aggregation.bases import Aggregator

    class T(TableAggregator, Aggregator):
        pass
    return T


def grads(prog, names):
    return {n: (None if prog[n].grad is None else prog[n].grad.detach().clone().numpy()) for n in names}


def set_old(prog, old):
    for n, g in (old or {}).items():
        if g is not None:
            prog[n].grad = torch.tensor(np.asarray(arr(g), dtype=float), dtype=prog[n].dtype).reshape(prog[n].shape)


def check_backward_effect(prog, outs, ins, agg, before, after, leaf_names):
    """independent statement of C01/C06 for one call: returns list of problems (empty = property holds)"""
    if not ins:
        return []
    if len(agg.seen) != 1:
        return [f"aggregator called {len(agg.seen)} times"]
    M = agg.seen[0]
    v = agg.vs[0] if agg.vs and len(agg.vs[0]) == M.shape[1] else np.arange(1, M.shape[1] + 1, dtype=float) * 0.37
    for pi in itertools.permutations(ins):
        J = prog.jacobian(outs, list(pi))
        if J.shape != M.shape or not close(M, J):
            continue
        off, ok = 0, True
        for n in pi:
            k = prog[n].numel()
            inc = v[off:off + k].reshape(tuple(prog[n].shape))
            off += k
            b = before[n] if before[n] is not None else 0.0
            if after[n] is None or after[n].shape != tuple(prog[n].shape) or not close(after[n], b + inc):
                ok = False
        if ok:
            probs = []
            for n in leaf_names:
                if n in ins:
                    continue
                if (before[n] is None) != (after[n] is None) or (before[n] is not None and not close(before[n], after[n])):
                    probs.append(f".grad of {n} (not requested) changed")
            return probs
    return ["no ordering of the inputs makes (matrix seen by the aggregator, deposited slices) consistent with the true Jacobian"]


@handler("autojac_backward")
def r_backward(c):
    from torchjd.autojac import backward
    Agg = from_torchjd()
    spec = c["spec"]
    leaf_names = [l[0] for l in spec["leaves"]]
    last = None
    for attempt in range(6):  # the iteration order of set(inputs) depends on object addresses: try several layouts
        junk = [torch.zeros(3) for _ in range(attempt * 3)]
        prog = RealProg(spec, c["jac"])
        set_old(prog, c.get("old"))
        before = grads(prog, leaf_names)
        agg = Agg(c.get("v") or [])
        kw = {}
        if c.get("inputs") is not None:
            kw["inputs"] = [prog[n] for n in c["inputs"]]
        backward([prog[n] for n in c["outputs"]], agg, parallel_chunk_size=c.get("chunk"), retain_graph=bool(c.get("retain_graph", False)), **kw)
        after = grads(prog, leaf_names)
        ins = c["inputs"] if c.get("inputs") is not None else c.get("expected_inputs", [])
        probs = check_backward_effect(prog, c["outputs"], ins, agg, before, after, leaf_names)
        last = dict(reproduced=bool(probs), why=probs[:3], attempt=attempt)
        if probs:
            return last
        del junk
    return last


def check_mtl_effect(prog, c, agg, before, after, leaf_names):
    losses, feats = c["losses"], c["features"]
    tasks_params, shared = c["expected_tasks_params"], c["expected_shared"]
    probs = []
    for n in sorted({n for ps in tasks_params for n in ps}):
        D = prog.total_jac(n)
        exp = np.zeros(prog[n].numel())
        for t, ps in enumerate(tasks_params):
            if n in ps and losses[t] in D:
                exp = exp + D[losses[t]][0]
        b = before[n] if before[n] is not None else 0.0
        if after[n] is None or not close(after[n], b + exp.reshape(tuple(prog[n].shape))):
            probs.append(f"task parameter {n}: increment is not the sum of its tasks' gradients")
    if len(agg.seen) != 1:
        return probs + [f"aggregator called {len(agg.seen)} times"]
    M = agg.seen[0]
    v = agg.vs[0] if agg.vs and len(agg.vs[0]) == M.shape[1] else np.arange(1, M.shape[1] + 1, dtype=float) * 0.37
    Dsh = {n: prog.total_jac(n) for n in shared}
    Df = {f: prog.total_jac(f) for f in feats}
    ok_any = False
    for pi in itertools.permutations(shared):
        rows = []
        for t in range(len(losses)):
            row = []
            for n in pi:
                acc = np.zeros(prog[n].numel())
                for f in feats:
                    if losses[t] in Df[f] and f in Dsh[n]:
                        acc = acc + Df[f][losses[t]][0] @ Dsh[n][f]
                row.append(acc)
            rows.append(np.concatenate(row))
        J = np.stack(rows)
        if J.shape != M.shape or not close(M, J):
            continue
        off, ok = 0, True
        for n in pi:
            k = prog[n].numel()
            inc = v[off:off + k].reshape(tuple(prog[n].shape))
            off += k
            b = before[n] if before[n] is not None else 0.0
            if after[n] is None or not close(after[n], b + inc):
                ok = False
        ok_any = ok_any or ok
    if not ok_any:
        probs.append("shared parameters: (matrix seen by the aggregator, deposited slices) inconsistent with row i = d loss_i / d shared for every column order")
    return probs


@handler("autojac_mtl")
def r_mtl(c):
    from torchjd.autojac import mtl_backward
    Agg = from_torchjd()
    spec = c["spec"]
    leaf_names = [l[0] for l in spec["leaves"]]
    last = None
    for attempt in range(6):
        junk = [torch.zeros(3) for _ in range(attempt * 3)]
        prog = RealProg(spec, c["jac"])
        set_old(prog, c.get("old"))
        before = grads(prog, leaf_names)
        agg = Agg(c.get("v") or [])
        kw = {}
        if c.get("tasks_params") is not None:
            kw["tasks_params"] = [[prog[n] for n in ps] for ps in c["tasks_params"]]
        if c.get("shared_params") is not None:
            kw["shared_params"] = [prog[n] for n in c["shared_params"]]
        feats = [prog[f] for f in c["features"]]
        mtl_backward([prog[n] for n in c["losses"]], feats if len(feats) > 1 else feats[0], agg, parallel_chunk_size=c.get("chunk"),
                     retain_graph=bool(c.get("retain_graph", False)), **kw)
        after = grads(prog, leaf_names)
        probs = check_mtl_effect(prog, c, agg, before, after, leaf_names)
        last = dict(reproduced=bool(probs), why=probs[:3], attempt=attempt)
        if probs:
            return last
        del junk
    return last
