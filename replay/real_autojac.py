"""Real-stack twins of the symbolic autograd programs + replay handlers for the autojac properties.

Every symbolic op (arbitrary local Jacobians W[k][i]) has an exact twin in real torch: a custom autograd.Function
whose outputs are out_k = sum_i W[k][i] @ in_i.flatten().  Flags: `saves` (W kept via save_for_backward, so a second
traversal after a non-retaining one raises) and `vmap_ok` (generate_vmap_rule)."""
from __future__ import annotations

import itertools
import gc
import json

import numpy as np
import torch

from _lib import handler, arr, num, close as _close, patched, expect_value_error, HANDLERS


def close(a, b, tol=1e-11):
    """the twin programs run in float64 on small rational data: anything beyond 1e-11 relative is not float64 rounding (it exposes e.g. a detour through float32)"""
    return _close(a, b, tol)


def _mk_function(vmap_ok):
    class LinNode(torch.autograd.Function):
        generate_vmap_rule = vmap_ok

        @staticmethod
        def forward(meta, *inputs):
            outs = []
            for k, shape in enumerate(meta["out_shapes"]):
                acc = torch.zeros(int(np.prod(shape)) if shape else 1, dtype=meta["dtype"])
                for i, x in enumerate(inputs):
                    W = meta["W"].get((k, i))
                    if W is not None:
                        acc = acc + W @ x.reshape(-1)
                outs.append(acc.reshape(shape))
            return tuple(outs)

        @staticmethod
        def setup_context(ctx, inputs, output):
            meta = inputs[0]
            ctx.meta = dict(out_shapes=meta["out_shapes"], in_shapes=[tuple(x.shape) for x in inputs[1:]], keys=sorted(meta["W"]))
            ws = [meta["W"][k] for k in ctx.meta["keys"]]
            if meta["saves"]:
                ctx.save_for_backward(*ws)
                ctx.kept = None
            else:
                ctx.kept = ws

        @staticmethod
        def backward(ctx, *gos):
            ws = ctx.saved_tensors if ctx.kept is None else ctx.kept
            W = dict(zip(ctx.meta["keys"], ws))
            res = [None]
            for i, shape in enumerate(ctx.meta["in_shapes"]):
                acc = None
                for k, go in enumerate(gos):
                    Wk = W.get((k, i))
                    if Wk is None or go is None:
                        continue
                    term = Wk.T @ go.reshape(-1)
                    acc = term if acc is None else acc + term
                res.append(None if acc is None or not ctx.needs_input_grad[i + 1] else acc.reshape(shape))
            return tuple(res)

    return LinNode


_FUNCS = {True: _mk_function(True), False: _mk_function(False)}


class RealProg:
    def __init__(self, spec, jac, dtype=torch.float64, leaf_values=None, scatter=0):
        """scatter > 0: dummy objects are allocated between the tensors of the program so that their addresses (hence the iteration order of the
        Python sets torchjd builds from them) vary from one replay attempt to the next"""
        self.spec, self.t = spec, {}
        self.W = {}
        self._junk = []
        def pad(i):
            if scatter:
                self._junk.append([torch.empty(1) for _ in range((scatter * 7 + i * 3) % 5)] + [object() for _ in range((scatter + i) % 3)])
        for (name, shape, rg) in spec["leaves"]:
            n = int(np.prod(shape)) if shape else 1
            vals = (leaf_values or {}).get(name)
            x = torch.tensor(vals if vals is not None else [0.5 + 0.25 * k for k in range(n)], dtype=dtype).reshape(tuple(shape))
            x.requires_grad_(bool(rg))
            self.t[name] = x
            pad(len(self.t))
        for o in spec["ops"]:
            ins = [self.t[n] for n in o["inputs"]]
            W = {}
            for (k, i) in [tuple(d) for d in o["deps"]]:
                M = jac.get(f"{o['name']}:{k}:{i}")
                oshape = o["outs"][k][1]
                rows = int(np.prod(oshape)) if oshape else 1
                cols = ins[i].numel()
                if M is None:
                    # a structural counterexample carries no values: generic, pairwise different local Jacobians (zeros would hide every fault that
                    # permutes, drops or duplicates rows / columns)
                    oi = spec["ops"].index(o)
                    import _lib as _L
                    M = np.zeros((rows, cols)) if _L.FILL[0] == "zeros" else 0.37 + 0.29 * oi + 0.013 * k + 0.0017 * i + 0.11 * np.arange(rows * cols, dtype=float).reshape(rows, cols) * (1 + 0.07 * oi)
                W[(k, i)] = torch.tensor(np.asarray(arr(M), dtype=float).reshape(rows, cols), dtype=dtype)
            meta = dict(W=W, out_shapes=[tuple(s) for _, s in o["outs"]], saves=bool(o.get("saves", True)), dtype=dtype)
            outs = _FUNCS[bool(o.get("vmap_ok", True))].apply(meta, *ins)
            for (n, _), y in zip(o["outs"], outs):
                self.t[n] = y
            pad(len(self.t))
            self.W[o["name"]] = W

    def __getitem__(self, n):
        return self.t[n]

    def total_jac(self, wrt):
        nw = self.t[wrt].numel()
        D = {wrt: np.eye(nw)}
        for o in self.spec["ops"]:
            W = self.W[o["name"]]
            for k, (oname, oshape) in enumerate(o["outs"]):
                if oname == wrt:
                    continue
                acc = None
                for i, iname in enumerate(o["inputs"]):
                    M = W.get((k, i))
                    if M is None or not self.t[iname].requires_grad or iname not in D:
                        continue
                    p = M.numpy() @ D[iname]
                    acc = p if acc is None else acc + p
                if acc is not None:
                    D[oname] = acc
        return D

    def jacobian(self, outs, ins):
        per = {n: self.total_jac(n) for n in ins}
        rows = []
        for on in outs:
            no = self.t[on].numel()
            blocks = [per[n].get(on, np.zeros((no, self.t[n].numel()))) for n in ins]
            rows.append(np.concatenate(blocks, axis=1) if blocks else np.zeros((no, 0)))
        return np.concatenate(rows, axis=0)


def as_container(items, kind):
    if kind in (None, "list"):
        return list(items)
    if kind == "tuple":
        return tuple(items)
    if kind == "generator":
        return (x for x in items)
    return iter(list(items))


class TableAggregator(torch.nn.Module):
    """stand-in for the uninterpreted aggregator of the model: returns the vectors of the counterexample"""

    def __init__(self, vs, dtype=torch.float64, error=None):
        super().__init__()
        self.vs, self.seen, self.dtype, self.error = [np.asarray(arr(v), dtype=float) for v in vs], [], dtype, error

    def forward(self, M):
        self.seen.append(M.detach().clone().numpy())
        if self.error:
            raise ValueError(self.error)
        k = len(self.seen) - 1
        n = M.shape[1]
        v = self.vs[k] if k < len(self.vs) and len(self.vs[k]) == n else np.arange(1, n + 1, dtype=float) * 0.37 + k
        return torch.tensor(v, dtype=M.dtype)

    def __str__(self):
        return "Table"


def from_torchjd():
    from torchjd.aggregation.bases import Aggregator

    class T(TableAggregator, Aggregator):
        pass
    return T


def grads(prog, names):
    return {n: (None if prog[n].grad is None else prog[n].grad.detach().clone().numpy()) for n in names}


def set_old(prog, old):
    for n, g in (old or {}).items():
        if g is not None:
            prog[n].grad = torch.tensor(np.asarray(arr(g), dtype=float), dtype=prog[n].dtype).reshape(prog[n].shape)


def check_backward_effect(prog, outs, ins, agg, before, after, leaf_names):
    """independent statement of C01/C06 for one call: returns list of problems (empty = property holds)"""
    if not ins:
        return []
    if len(agg.seen) != 1:
        return [f"aggregator called {len(agg.seen)} times"]
    M = agg.seen[0]
    v = agg.vs[0] if agg.vs and len(agg.vs[0]) == M.shape[1] else np.arange(1, M.shape[1] + 1, dtype=float) * 0.37
    for pi in itertools.permutations(ins):
        J = prog.jacobian(outs, list(pi))
        if J.shape != M.shape or not close(M, J):
            continue
        off, ok = 0, True
        for n in pi:
            k = prog[n].numel()
            inc = v[off:off + k].reshape(tuple(prog[n].shape))
            off += k
            b = before[n] if before[n] is not None else 0.0
            if after[n] is None or after[n].shape != tuple(prog[n].shape) or not close(after[n], b + inc):
                ok = False
        if ok:
            probs = []
            for n in leaf_names:
                if n in ins:
                    continue
                if (before[n] is None) != (after[n] is None) or (before[n] is not None and not close(before[n], after[n])):
                    probs.append(f".grad of {n} (not requested) changed")
            return probs
    return ["no ordering of the inputs makes (matrix seen by the aggregator, deposited slices) consistent with the true Jacobian"]


@handler("autojac_backward")
def r_backward(c):
    from torchjd.autojac import backward
    Agg = from_torchjd()
    spec = c["spec"]
    leaf_names = [l[0] for l in spec["leaves"]]
    last = None
    # the iteration order of the sets torchjd builds depends on object addresses, which a replay cannot dictate: the scenario is tried with
    # several memory layouts and (the property being stated for every order) with every order of the output list
    orders = list(itertools.permutations(c["outputs"]))
    orders.sort(key=lambda o: list(o) != list(c["outputs"]))
    attempt = 0
    for outs in orders:
        for layout in range(8):
            attempt += 1
            junk = [torch.zeros(3) for _ in range(layout * 3)]
            generic = {k_: (np.asarray(arr(v_), dtype=float) * 1.1234567891 + 0.0123456789).tolist() for k_, v_ in c["jac"].items()}
            prog = RealProg(spec, c["jac"] if layout < 5 else generic, scatter=layout)  # last layouts: non-dyadic values (precision-only faults)
            set_old(prog, c.get("old"))
            before = grads(prog, leaf_names)
            agg = Agg([])  # the stand-in aggregator answers with a fixed function of the column index (the model's values belong to its own row order)
            kw = {}
            if c.get("inputs") is not None:
                kw["inputs"] = as_container([prog[n] for n in c["inputs"]], c.get("container"))
            ts = [prog[n] for n in outs]
            form = c.get("tensors_form", "list")
            try:
                backward(ts[0] if (form == "tensor" and len(ts) == 1) else (tuple(ts) if form == "tuple" else ts), agg, parallel_chunk_size=c.get("chunk"),
                         retain_graph=bool(c.get("retain_graph", False)), **kw)
            except Exception as e:  # noqa
                return dict(reproduced=True, why=[f"a valid call raised {type(e).__name__}: {e}"], tensors_form=form)
            after = grads(prog, leaf_names)
            ins = c["inputs"] if c.get("inputs") is not None else c.get("expected_inputs", [])
            probs = check_backward_effect(prog, list(outs), ins, agg, before, after, leaf_names)
            last = dict(reproduced=bool(probs), why=probs[:3], attempt=attempt, outputs=list(outs))
            if probs:
                return last
            del junk
    # CPython iterates a set of <= 4 tensors in insertion order (object addresses are 16-byte aligned and collide in an 8-slot table), so an
    # order-dependent fault may be invisible on a small program.  The same scenario is therefore also tried AMPLIFIED: extra outputs and extra
    # leaves (with their own random local Jacobians) are added to the program - still an instance of the property, with sets large enough to be hashed.
    rng = np.random.default_rng(0)
    for amp in range(6):
        spec2 = json.loads(json.dumps(spec))
        jac2 = dict(c["jac"])
        base_in = spec2["ops"][0]["inputs"][0] if spec2["ops"] else spec2["leaves"][0][0]
        req_leaves = [l[0] for l in spec2["leaves"] if l[2]]
        extra_leaves = [f"xl{i}" for i in range(4)]
        for n in extra_leaves:
            spec2["leaves"].append([n, [2], True])
        extra_outs = []
        for i in range(5):
            on = f"xo{i}"
            ins_i = [req_leaves[0], extra_leaves[i % 4]]
            spec2["ops"].append(dict(name=f"xop{i}", inputs=ins_i, outs=[[on, [1 + i % 2]]], deps=[[0, 0], [0, 1]], saves=True, vmap_ok=True))
            shapes = {l[0]: l[1] for l in spec2["leaves"]}
            for j, iname in enumerate(ins_i):
                ncol = int(np.prod(shapes[iname])) if shapes[iname] else 1
                jac2[f"xop{i}:0:{j}"] = rng.integers(-3, 4, size=(1 + i % 2, ncol)).astype(float).tolist()
            extra_outs.append(on)
        outs = list(c["outputs"]) + extra_outs
        rng.shuffle(outs)
        prog = RealProg(spec2, jac2, scatter=amp)
        set_old(prog, c.get("old"))
        names2 = [l[0] for l in spec2["leaves"]]
        before = grads(prog, names2)
        agg = Agg([])
        ins = (list(c["inputs"]) if c.get("inputs") is not None else list(c.get("expected_inputs", []))) + extra_leaves
        rng.shuffle(ins)
        backward([prog[n] for n in outs], agg, inputs=as_container([prog[n] for n in ins], c.get("container")), parallel_chunk_size=c.get("chunk"))
        after = grads(prog, names2)
        if len(ins) <= 6:
            probs = check_backward_effect(prog, outs, ins, agg, before, after, names2)
        else:
            probs = check_backward_effect_big(prog, outs, ins, agg, before, after, names2)
        if probs:
            return dict(reproduced=True, why=probs[:3], amplified=True, outputs=outs, inputs=ins)
    return last


def check_backward_effect_big(prog, outs, ins, agg, before, after, leaf_names):
    """same statement as check_backward_effect without enumerating column orders: the column blocks are matched greedily"""
    if len(agg.seen) != 1:
        return [f"aggregator called {len(agg.seen)} times"]
    M = agg.seen[0]
    v = np.arange(1, M.shape[1] + 1, dtype=float) * 0.37
    remaining = list(ins)
    off = 0
    probs = []
    while remaining:
        hit = None
        for n in remaining:
            k = prog[n].numel()
            J = prog.jacobian(outs, [n])
            if off + k <= M.shape[1] and close(M[:, off:off + k], J):
                inc = v[off:off + k].reshape(tuple(prog[n].shape))
                b = before[n] if before[n] is not None else 0.0
                if after[n] is not None and close(after[n], b + inc):
                    hit = n
                    break
        if hit is None:
            return ["no ordering of the inputs makes (matrix seen by the aggregator, deposited slices) consistent with the true Jacobian"]
        off += prog[hit].numel()
        remaining.remove(hit)
    return probs


def check_mtl_effect(prog, c, agg, before, after, leaf_names):
    losses, feats = c["losses"], c["features"]
    tasks_params, shared = c["expected_tasks_params"], c["expected_shared"]
    probs = []
    for n in sorted({n for ps in tasks_params for n in ps}):
        D = prog.total_jac(n)
        exp = np.zeros(prog[n].numel())
        for t, ps in enumerate(tasks_params):
            if n in ps and losses[t] in D:
                exp = exp + D[losses[t]][0]
        b = before[n] if before[n] is not None else 0.0
        if after[n] is None or not close(after[n], b + exp.reshape(tuple(prog[n].shape))):
            probs.append(f"task parameter {n}: increment is not the sum of its tasks' gradients")
    if not shared:
        return probs + ([f"aggregator called {len(agg.seen)} times although there is no shared parameter"] if agg.seen else [])
    if len(agg.seen) != 1:
        return probs + [f"aggregator called {len(agg.seen)} times"]
    M = agg.seen[0]
    v = agg.vs[0] if agg.vs and len(agg.vs[0]) == M.shape[1] else np.arange(1, M.shape[1] + 1, dtype=float) * 0.37
    Dsh = {n: prog.total_jac(n) for n in shared}
    Df = {f: prog.total_jac(f) for f in feats}
    ok_any = False
    for pi in itertools.permutations(shared):
        rows = []
        for t in range(len(losses)):
            row = []
            for n in pi:
                acc = np.zeros(prog[n].numel())
                for f in feats:
                    if losses[t] in Df[f] and f in Dsh[n]:
                        acc = acc + Df[f][losses[t]][0] @ Dsh[n][f]
                row.append(acc)
            rows.append(np.concatenate(row))
        J = np.stack(rows)
        if J.shape != M.shape or not close(M, J):
            continue
        off, ok = 0, True
        for n in pi:
            k = prog[n].numel()
            inc = v[off:off + k].reshape(tuple(prog[n].shape))
            off += k
            b = before[n] if before[n] is not None else 0.0
            if after[n] is None or not close(after[n], b + inc):
                ok = False
        ok_any = ok_any or ok
    if not ok_any:
        probs.append("shared parameters: (matrix seen by the aggregator, deposited slices) inconsistent with row i = d loss_i / d shared for every column order")
    return probs


@handler("autojac_mtl")
def r_mtl(c):
    from torchjd.autojac import mtl_backward
    Agg = from_torchjd()
    spec = c["spec"]
    leaf_names = [l[0] for l in spec["leaves"]]
    last = None
    # the solver's witnesses are small dyadic rationals, which every float format holds exactly; a fault that only loses PRECISION (a detour
    # through float32) needs generic values: the second half of the attempts uses the same program with perturbed, non-dyadic local Jacobians
    generic = {k: (np.asarray(arr(v), dtype=float) * 1.1234567891 + 0.0123456789).tolist() for k, v in c["jac"].items()}
    for attempt in range(8):
        junk = [torch.zeros(3) for _ in range(attempt * 3)]
        prog = RealProg(spec, c["jac"] if attempt < 4 else generic)
        set_old(prog, c.get("old"))
        before = grads(prog, leaf_names)
        agg = Agg((c.get("v") or []) if attempt < 4 else [])
        kw = {}
        if c.get("tasks_params") is not None:
            kw["tasks_params"] = [as_container([prog[n] for n in ps], c.get("container")) for ps in c["tasks_params"]]
        if c.get("shared_params") is not None:
            kw["shared_params"] = as_container([prog[n] for n in c["shared_params"]], c.get("container"))
        feats = [prog[f] for f in c["features"]]
        mtl_backward([prog[n] for n in c["losses"]], feats if len(feats) > 1 else feats[0], agg, parallel_chunk_size=c.get("chunk"),
                     retain_graph=bool(c.get("retain_graph", False)), **kw)
        after = grads(prog, leaf_names)
        probs = check_mtl_effect(prog, c, agg, before, after, leaf_names)
        key = None
        if probs and c.get("container") in ("generator", "iterator") and all(after[n] is None or (before[n] is not None and close(after[n], before[n])) for n in leaf_names):
            key = "mtl_backward:one-shot-iterable-params-consumed-by-overlap-check"
        last = dict(reproduced=bool(probs), why=probs[:3], attempt=attempt, finding_key=key)
        if probs:
            return last
        del junk
    return last


# ------------------------------------------------------------------------------------------- C05
def _weights_agg(name, w):
    from torchjd.aggregation import Constant, Sum, Mean
    if name == "constant":
        return Constant(torch.tensor(np.asarray(arr(w), dtype=float), dtype=torch.float64))
    return Sum() if name == "sum" else Mean()


def _cmp_grads(prog, twin, names):
    probs = []
    for n in names:
        g1 = prog[n].grad
        g2 = twin[n].grad
        a = np.zeros(tuple(prog[n].shape)) if g1 is None else g1.detach().numpy()
        b = np.zeros(tuple(prog[n].shape)) if g2 is None else g2.detach().numpy()
        if not close(a, b):
            probs.append(f".grad of {n}: torchjd {a.tolist()} vs autograd {b.tolist()}")
    return probs


@handler("autojac_vs_autograd")
def r_vs_autograd(c):
    from torchjd.autojac import backward
    spec = c["spec"]
    # non-dyadic local Jacobians: faults that only lose precision (a detour through float32) are invisible on the solver's small dyadic witnesses
    jacg = {k: (np.asarray(arr(v), dtype=float) * 1.1234567891 + 0.0123456789).tolist() for k, v in c["jac"].items()} if c.get("dtype") == "float64" else c["jac"]
    prog, twin = RealProg(spec, jacg), RealProg(spec, jacg)
    set_old(prog, c.get("old"))
    set_old(twin, c.get("old"))
    outs, ins = c["outputs"], c["inputs"]
    rows = sum(prog[n].numel() for n in outs)
    w = np.asarray(arr(c["w"]), dtype=float) if c["agg"] == "constant" else (np.ones(rows) if c["agg"] == "sum" else np.ones(rows) / rows)
    if c["agg"] == "constant" and c.get("dtype") == "float64":
        w = w * 1.1234567891 + 0.0123456789  # non-dyadic weights as well: a detour of the weights through float32 must be visible
    A = _weights_agg(c["agg"], w.tolist())
    if c.get("prior_float32"):
        try:
            A(torch.ones(rows, 1, dtype=torch.float32))  # the earlier call of the history, on a matrix of the other floating dtype
        except (RuntimeError, TypeError, ValueError):
            pass
    backward([prog[n] for n in outs], A, inputs=[prog[n] for n in ins], parallel_chunk_size=c.get("chunk"))
    gts, off = [], 0
    for n in outs:
        k = twin[n].numel()
        gts.append(torch.tensor(w[off:off + k], dtype=torch.float64).reshape(twin[n].shape))
        off += k
    torch.autograd.backward([twin[n] for n in outs], grad_tensors=gts, inputs=[twin[n] for n in ins])
    probs = _cmp_grads(prog, twin, [l[0] for l in spec["leaves"]])
    return dict(reproduced=bool(probs), why=probs[:3])


@handler("mtl_vs_autograd")
def r_mtl_vs_autograd(c):
    from torchjd.autojac import mtl_backward
    spec = c["spec"]
    prog, twin = RealProg(spec, c["jac"]), RealProg(spec, c["jac"])
    set_old(prog, c.get("old"))
    set_old(twin, c.get("old"))
    losses, feats = c["losses"], c["features"]
    nt = len(losses)
    w = np.asarray(arr(c["w"]), dtype=float) if c["agg"] == "constant" else (np.ones(nt) if c["agg"] == "sum" else np.ones(nt) / nt)
    mtl_backward([prog[n] for n in losses], [prog[f] for f in feats], _weights_agg(c["agg"], c["w"]), tasks_params=[[prog[n] for n in ps] for ps in c["tasks_params"]],
                 shared_params=[prog[n] for n in c["shared_params"]], parallel_chunk_size=c.get("chunk"))
    torch.autograd.backward([twin[n] for n in losses], grad_tensors=[torch.tensor(w[t], dtype=torch.float64) for t in range(nt)],
                            inputs=[twin[n] for n in c["shared_params"]], retain_graph=True)
    for t in range(nt):
        if c["tasks_params"][t]:
            twin[losses[t]].backward(inputs=[twin[n] for n in c["tasks_params"][t]], retain_graph=True)
    probs = _cmp_grads(prog, twin, [l[0] for l in spec["leaves"]])
    return dict(reproduced=bool(probs), why=probs[:3])


# ------------------------------------------------------------------------------------------- C07 / C13: observing sweeps and freeing
class SweepLog:
    """records torch.autograd.grad calls and torch.vmap invocations made by torchjd (patched at the module boundary)"""

    def __init__(self):
        self.events, self.depth = [], 0

    def __enter__(self):
        self.og, self.ov = torch.autograd.grad, torch.vmap
        log = self

        def grad(outputs, inputs, grad_outputs=None, retain_graph=None, **kw):
            log.events.append(("sweep", log.depth > 0, bool(retain_graph)))
            return log.og(outputs, inputs, grad_outputs=grad_outputs, retain_graph=retain_graph, **kw)

        def vmap(func, *a, **k):
            inner = log.ov(func, *a, **k)

            def run(*args):
                def bs(x):
                    if isinstance(x, torch.Tensor):
                        return x.shape[0]
                    return bs(x[0])
                log.events.append(("vmap_enter", bs(args)))
                log.depth += 1
                try:
                    return inner(*args)
                finally:
                    log.depth -= 1
                    log.events.append(("vmap_exit",))
            return run

        torch.autograd.grad, torch.vmap = grad, vmap
        return self

    def __exit__(self, *a):
        torch.autograd.grad, torch.vmap = self.og, self.ov

    def sweeps(self):
        out, cur = [], None
        for e in self.events:
            if e[0] == "vmap_enter":
                cur = [e[1], None]
            elif e[0] == "vmap_exit":
                if cur is not None and cur[1] is not None:
                    out.append((cur[0], True, cur[1]))
                cur = None
            elif e[0] == "sweep":
                if cur is not None:
                    cur[1] = e[2]
                else:
                    out.append((1, False, e[2]))
        return out


def _expected_blocks(m, k):
    import math
    k = m if k is None else k
    n = math.ceil(m / k)
    return [k] * (n - 1) + [m - (n - 1) * k]


@handler("chunking")
def r_chunking(c):
    from torchjd.autojac import backward, mtl_backward
    Agg = from_torchjd()
    spec = c["spec"]
    k, retain, m = c.get("chunk"), bool(c.get("retain_graph")), int(c["rows"])
    vmap_bad = any(not o.get("vmap_ok", True) for o in spec["ops"])

    def run(kk):
        prog = RealProg(spec, c.get("jac") or {})
        agg = Agg([])
        with SweepLog() as log:
            if c["mode"] == "backward":
                backward([prog[n] for n in c["outputs"]], agg, inputs=[prog[n] for n in c["inputs"]], parallel_chunk_size=kk, retain_graph=retain)
            else:
                mtl_backward([prog[n] for n in c["losses"]], [prog[f] for f in c["features"]], agg, tasks_params=[[prog[n] for n in ps] for ps in c["tasks_params"]],
                             shared_params=[prog[n] for n in c["shared_params"]], parallel_chunk_size=kk, retain_graph=retain)
        return prog, agg, log
    probs = []
    try:
        prog, agg, log = run(k)
    except RuntimeError as e:
        needs_vmap = any(b > 1 for b in _expected_blocks(m, k))
        ok = vmap_bad and needs_vmap
        return dict(reproduced=not ok, why=[f"call raised {e!r} although differentiation should be sequential"] if not ok else [])
    sw = log.sweeps()
    if c["mode"] == "mtl":
        sw = sw[len(c["losses"]):]  # the first sweeps are the per-task Grad calls (one row each, heads only)
    exp = _expected_blocks(m, k)
    k_eff = m if k is None else k
    if len(sw) != len(exp) or any(not 1 <= s[0] <= k_eff for s in sw) or sum(s[0] for s in sw) != m:
        probs.append(f"row blocks of the sweeps {[s[0] for s in sw]}: expected {len(exp)} sweeps of at most {k_eff} rows covering {m} rows")
    if not all(s[1] == (s[0] > 1) for s in sw):
        probs.append("vmap used for a single-row block or not used for a larger one")
    if not vmap_bad:
        prog0, agg0, _ = run(None)
        if not close(agg.seen[0], agg0.seen[0]):
            probs.append("matrix given to the aggregator depends on the chunk size")
        for n in [l[0] for l in spec["leaves"]]:
            a, b = prog[n].grad, prog0[n].grad
            if (a is None) != (b is None) or (a is not None and not close(a.numpy(), b.numpy())):
                probs.append(f".grad of {n} depends on the chunk size")
    return dict(reproduced=bool(probs), why=probs[:3], sweeps=sw)


@handler("bad_chunk")
def r_bad_chunk(c):
    from torchjd.autojac import backward
    Agg = from_torchjd()
    x = torch.ones(2, dtype=torch.float64, requires_grad=True)
    return expect_value_error(lambda: backward([x * 2.0], Agg([]), inputs=[x], parallel_chunk_size=c["chunk"]))


def probe_freed(prog):
    """names of the ops (that save tensors) whose saved tensors have been released: a traversal of that op alone raises"""
    out = []
    for o in prog.spec["ops"]:
        if not o.get("saves", True):
            continue
        y = prog[o["outs"][0][0]]
        if y.grad_fn is None:
            continue
        xs = [prog[n] for n in o["inputs"] if prog[n].requires_grad]
        try:
            torch.autograd.grad([y], xs, grad_outputs=[torch.ones_like(y)], retain_graph=True, allow_unused=True)
        except RuntimeError:
            out.append(o["name"])
    return sorted(out)


@handler("retain_graph")
def r_retain(c):
    from torchjd.autojac import backward, mtl_backward
    Agg = from_torchjd()
    spec = c["spec"]
    prog, twin = RealProg(spec, c.get("jac") or {}), RealProg(spec, c.get("jac") or {})
    flag, k = bool(c["flags"][0]), c.get("chunk")
    agg = Agg([])
    probs = []
    try:
        if c["mode"] == "backward":
            backward([prog[n] for n in c["outputs"]], agg, inputs=[prog[n] for n in c["inputs"]], retain_graph=flag, parallel_chunk_size=k)
            torch.autograd.backward([twin[n] for n in c["outputs"]], grad_tensors=[torch.ones_like(twin[n]) for n in c["outputs"]], retain_graph=flag,
                                    inputs=[twin[n] for n in c["inputs"]])
        else:
            mtl_backward([prog[n] for n in c["losses"]], [prog[f] for f in c["features"]], agg, tasks_params=[[prog[n] for n in ps] for ps in c["tasks_params"]],
                         shared_params=[prog[n] for n in c["shared_params"]], retain_graph=flag, parallel_chunk_size=k)
            allp = c["shared_params"] + sorted({n for ps in c["tasks_params"] for n in ps})
            torch.autograd.backward([twin[n] for n in c["losses"]], retain_graph=flag, inputs=[twin[n] for n in allp])
    except RuntimeError as e:
        return dict(reproduced=True, why=[f"the call itself raised: {e}"])
    f1, f2 = probe_freed(prog), probe_freed(twin)
    if f1 != f2:
        probs.append(f"ops freed after torchjd {f1} != after torch.autograd.backward {f2}")
    if flag and f1:
        probs.append(f"retain_graph=True but {f1} were freed")
    return dict(reproduced=bool(probs), why=probs)


# ------------------------------------------------------------------------------------------- C20
def _snapshot(prog):
    return {n: (None if t.grad is None else (id(t.grad), t.grad.detach().clone().numpy())) for n, t in prog.t.items() if t.is_leaf or t.grad is not None or True}


def _changed(prog, snap):
    out = []
    for n, t in prog.t.items():
        with torch.no_grad():
            g = None
            try:
                import warnings
                with warnings.catch_warnings():
                    warnings.simplefilter("ignore")
                    g = t.grad
            except Exception:  # noqa
                g = None
        s = snap[n]
        if (g is None) != (s is None):
            out.append(f".grad of {n} {'created' if s is None else 'removed'}")
        elif g is not None and (id(g) != s[0] or not np.array_equal(g.detach().numpy(), s[1])):
            out.append(f".grad of {n} modified")
    return out


def _reject_scenario(c, attempt):
    from torchjd.autojac import backward, mtl_backward
    Agg = from_torchjd()
    junk = [torch.zeros(5) for _ in range(attempt * 2)]
    spec, what = c["spec"], c["what"]
    prog = RealProg(spec, {})
    # shuffle object addresses of candidate tensors is not controllable; several attempts vary the set iteration order
    for n in ("a", "c", "p0", "q0"):
        if n in prog.t and attempt % 2 == 1:
            prog[n].grad = torch.ones_like(prog[n])
    agg = Agg([])
    if c["kind"] == "rejected_backward":
        outs = [prog["y1"], prog["y2"]]
        kw = dict(inputs=[prog["a"], prog["b"], prog["c"]])
        if what == "chunk":
            kw["parallel_chunk_size"] = 0
        elif what == "empty":
            outs = []
        elif what == "duplicate":
            outs = [prog["y1"], prog["y2"], prog["y1"]]
        elif what in ("nonleaf_input", "no_grad_input"):
            if c.get("as_parameter"):
                prog.t["d"] = torch.nn.Parameter(prog["d"].detach(), requires_grad=False)
            lst = [prog[n] for n in c["valid"]]
            lst.insert(int(c["position"]), prog["h"] if what == "nonleaf_input" else prog["d"])
            kw["inputs"] = lst
        elif what == "aggregator_raises":
            agg = Agg([], error="the aggregator rejects this Jacobian")
        call = lambda: backward(outs, agg, **kw)
    else:
        losses, feats = [prog["loss0"], prog["loss1"]], [prog["f"]]
        tp, shp, kw = [[prog["q0"]], [prog["q1"]]], [prog["p0"], prog["p1"]], {}
        if what == "chunk":
            kw["parallel_chunk_size"] = 0
        elif what == "empty_features":
            feats = []
        elif what == "empty_losses":
            losses, tp = [], []
        elif what == "non_scalar_loss":
            losses[int(c["position"])] = prog["lossv"]
        elif what == "length_mismatch":
            tp = [[prog["q0"]], [prog["q1"]], []]
        elif what == "overlap":
            tp = [[prog["q0"], prog["p1"]], [prog["q1"]]] if int(c.get("which", 0)) == 1 else [[prog["q0"]], [prog["q1"], prog["p1"]]]
        elif what == "duplicate_param":
            if int(c.get("which", 0)) == 0:
                tp = [[prog["q0"]], [prog["q1"], prog["q1"]]]
            else:
                shp = [prog["p0"], prog["p1"], prog["p0"]]
        elif what == "nonleaf_task_param":
            tp[int(c["task"])].insert(int(c["position"]), prog["m0"])
        elif what == "nonleaf_shared_param":
            shp.insert(int(c["position"]), prog["m0"])
        elif what == "no_grad_param":
            if c.get("as_parameter"):
                prog.t["d"] = torch.nn.Parameter(prog["d"].detach(), requires_grad=False)
            if int(c.get("which", 0)) == 0:
                tp[1].append(prog["d"])
            else:
                shp.append(prog["d"])
        call = lambda: mtl_backward(losses, feats, agg, tasks_params=tp, shared_params=shp, **kw)
    return prog, call, junk


def _r_rejected(c):
    fn = "backward" if c["kind"] == "rejected_backward" else "mtl_backward"
    last = None
    for attempt in range(8):
        prog, call, junk = _reject_scenario(c, attempt)
        snap = _snapshot(prog)
        try:
            call()
            raised = None
        except Exception as e:  # noqa
            raised = e
        if raised is None:
            return dict(reproduced=True, why=[f"{fn} accepted the invalid call ({c['what']})"], finding_key=f"{fn}:{c['what']}:accepted")
        ch = _changed(prog, snap)
        last = dict(reproduced=bool(ch), why=ch[:3] + [f"raised {type(raised).__name__}"], attempt=attempt, finding_key=f"{fn}:{c['what']}:grad-written-before-rejection")
        if ch:
            return last
    return last


HANDLERS["rejected_backward"] = _r_rejected
HANDLERS["rejected_mtl"] = _r_rejected


# ------------------------------------------------------------------------------------------- C06
def _storage_ptr(t):
    return t.untyped_storage().data_ptr()


@handler("accumulate")
def r_accumulate(c):
    from torchjd.autojac import backward, mtl_backward
    from torchjd.aggregation.bases import Aggregator
    spec = c["spec"]

    class Agg(Aggregator):
        def __init__(self, cached):
            super().__init__()
            self.cached, self.cache, self.seen, self.outs = cached, None, [], []

        def forward(self, M):
            self.seen.append(M)
            if self.cached and self.cache is not None:
                return self.cache
            k = len(self.seen) - 1
            vs = c.get("v") or []
            if k < len(vs) and len(vs[k]) == M.shape[1]:
                out = torch.tensor(np.asarray(arr(vs[k]), dtype=float), dtype=M.dtype)  # the aggregator answers exactly as in the counterexample
            else:
                out = torch.arange(1, M.shape[1] + 1, dtype=M.dtype) * (0.5 + len(self.seen))
            if self.cached:
                self.cache = out
                self.cache_copy = out.clone()
            self.outs.append(out)
            return out

    probs = []
    prog = RealProg(spec, c.get("jac") or {})
    mode = c["mode"]
    requested = c["requested"]
    leaf_names = [l[0] for l in spec["leaves"]]
    pv = c.get("pre_values") or {}
    if c.get("pre"):
        for n in (["a"] if mode == "backward" else ["q0", "p1"]):
            g0 = torch.tensor(np.asarray(arr(pv[n]), dtype=float), dtype=prog[n].dtype).reshape(prog[n].shape) if n in pv else torch.full_like(prog[n], 7.0)
            if c.get("pre_strided") and n in ("a", "q0") and g0.dim() == 1 and g0.numel() >= 2:
                base = torch.zeros(2 * g0.numel(), dtype=g0.dtype)
                base[::2] = g0
                g0 = base[::2]  # same values, non-contiguous layout
            prog[n].grad = g0
    for n in (["c"] if mode == "backward" else ["z"]):
        prog[n].grad = torch.tensor(np.asarray(arr(pv[n]), dtype=float), dtype=prog[n].dtype).reshape(prog[n].shape) if n in pv else torch.full_like(prog[n], 3.0)
    agg = Agg(bool(c.get("cached")))
    vals0 = {n: t.detach().clone() for n, t in prog.t.items()}
    others = [n for n in leaf_names if n not in requested]
    other0 = {n: (None if prog[n].grad is None else (id(prog[n].grad), prog[n].grad.clone())) for n in others}
    if mode == "backward":
        ins = lambda: [prog[n] for n in requested]  # "a", "b" and possibly the unused leaf "u"
        call = lambda: backward([prog["y1"], prog["y2"]], agg, inputs=(x for x in ins()) if c.get("generator") else ins(),
                                retain_graph=True, parallel_chunk_size=c.get("chunk"))
    else:
        # an unused leaf may be requested as a shared parameter ("us") or as a parameter of the first task ("ut")
        call = lambda: mtl_backward([prog["loss0"], prog["loss1"]], prog["f"], agg, tasks_params=[[prog["q0"]] + ([prog["ut"]] if "ut" in requested else []), [prog["q1"]]],
                                    shared_params=[prog["p0"], prog["p1"]] + ([prog["us"]] if "us" in requested else []),
                                    retain_graph=True, parallel_chunk_size=c.get("chunk"))
    e = int(c.get("edit", 0))
    for k in range(int(c["n_calls"])):
        if k > 0 and prog[requested[0]].grad is not None:
            t = prog[requested[0]]
            if e == 1:
                t.grad = None
            elif e == 2:
                t.grad.zero_()
            elif e == 3:
                t.grad += (num(c["delta"][k - 1]) if c.get("delta") else 0.125)
        before = {n: (None if prog[n].grad is None else prog[n].grad.clone()) for n in requested}
        handles = {n: prog[n].grad for n in requested}
        call()
        for n in requested:
            if handles[n] is not None and (prog[n].grad is not handles[n]):
                probs.append(f"call {k}: the existing .grad tensor of {n} was replaced instead of being added to")
        if len(agg.seen) <= k:
            return dict(reproduced=True, why=[f"call {k}: the aggregator was never called, the requested .grad fields did not receive any update"])
        # the update of this call, independently: slices of the aggregator's answer in the column order it saw
        M = agg.seen[-1].detach().numpy()
        v = (agg.cache_copy if agg.cached else agg.outs[-1]).detach().numpy()
        shared = requested if mode == "backward" else ["p0", "p1"] + (["us"] if "us" in requested else [])
        upd = None
        for pi in itertools.permutations(shared):
            if mode == "backward":
                J = prog.jacobian(["y1", "y2"], list(pi))
            else:
                J = np.stack([np.concatenate([prog.total_jac(n).get(l, np.zeros((1, prog[n].numel())))[0] for n in pi]) for l in ("loss0", "loss1")])
            if J.shape == M.shape and close(M, J):
                upd, off = {}, 0
                for n in pi:
                    kk = prog[n].numel()
                    upd[n] = v[off:off + kk].reshape(tuple(prog[n].shape))
                    off += kk
                break
        if upd is None:
            return dict(reproduced=True, why=["matrix seen by the aggregator is not the Jacobian (see C01/C02)"])
        if mode == "mtl":
            upd["q0"] = prog.total_jac("q0")["loss0"][0].reshape(tuple(prog["q0"].shape))
            upd["q1"] = prog.total_jac("q1")["loss1"][0].reshape(tuple(prog["q1"].shape))
            if "ut" in requested:
                upd["ut"] = np.zeros(tuple(prog["ut"].shape))
        for n in requested:
            g = prog[n].grad
            b = before[n].numpy() if before[n] is not None else 0.0
            if g is None or not close(g.detach().numpy(), b + upd[n]):
                probs.append(f"call {k}: .grad of {n} is not previous + update")
            if before[n] is None and g is not None:
                ptrs = {_storage_ptr(t): nm for nm, t in prog.t.items()}
                ptrs.update({_storage_ptr(o): "aggregator output" for o in agg.outs})
                ptrs.update({_storage_ptr(m): "aggregator input" for m in agg.seen})
                ptrs.update({_storage_ptr(prog[m].grad): f"{m}.grad" for m in leaf_names if m != n and prog[m].grad is not None})
                if _storage_ptr(g) in ptrs:
                    probs.append(f"call {k}: freshly created .grad of {n} shares memory with {ptrs[_storage_ptr(g)]}")
        for n, t in prog.t.items():
            if not torch.equal(t.detach(), vals0[n]):
                probs.append(f"call {k}: value of {n} changed")
        for n in others:
            g, b = prog[n].grad, other0[n]
            if (g is None) != (b is None) or (g is not None and (id(g) != b[0] or not torch.equal(g, b[1]))):
                probs.append(f"call {k}: .grad of un-requested {n} touched")
        if agg.cached and not torch.equal(agg.cache, agg.cache_copy):
            probs.append(f"call {k}: the aggregator's (cached) output tensor was mutated")
    return dict(reproduced=bool(probs), why=probs[:4])
