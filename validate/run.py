"""Differential validation of the environment model /verif/symtorch against the REAL libraries.

Concrete rational inputs are pushed through both stacks and compared:
  1. op level  : every modelled torch entry point torchjd uses (shapes incl. 0-d, views, in-place aliasing, dtype promotion, exceptions);
  2. autograd  : random twin programs - values of torch.autograd.grad / backward, None pattern, freeing behaviour over sequences of sweeps;
  3. aggregators: matrices taken from the repository's own test inputs through every aggregator that needs no kernel stub.
Run: python3-vt validate/run.py [--seed N] ; exit 0 = the model agrees with the real stack on everything tried."""
import json
import os
import random
import subprocess
import sys
from fractions import Fraction

HERE = os.path.dirname(os.path.abspath(__file__))
ROOT = os.path.dirname(HERE)
REPO = os.environ.get("VERIF_REPO", "/repo")
sys.path[:0] = [ROOT, os.path.join(ROOT, "symtorch"), os.path.join(REPO, "src")]
import symx
import torch
from symx import R, Sp, B


def real(req):
    p = subprocess.run([os.environ.get("VERIF_REAL_PY", "/venv/bin/python"), os.path.join(HERE, "real_side.py")], input=json.dumps(req), capture_output=True, text=True,
                       env={**os.environ, "VERIF_REPO": REPO})
    if p.returncode != 0:
        raise RuntimeError("real side failed: " + p.stderr[-2000:])
    return json.loads(p.stdout.strip().splitlines()[-1])


def fval(x):
    if isinstance(x, Sp):
        return float(x.k)
    if isinstance(x, R):
        if x.conc:
            return float(x.frac())
        # square roots of non-squares are solver variables even in a concrete run: evaluate them in a model
        sp = symx.space()
        _ = x.n  # materialise a lazy square root BEFORE asking for a model
        assert sp.check() == "sat"
        return float(symx.mval(sp.last_model, x))
    if isinstance(x, B):
        return float(bool(x.v))
    return float(x)


def enc(x):
    if isinstance(x, torch.Tensor):
        return dict(shape=list(x.shape), dtype=str(x.dtype), data=[fval(v) for v in x._flat()])
    if isinstance(x, (tuple, list)):
        return [enc(y) for y in x]
    if isinstance(x, (int, float, bool)):
        return dict(scalar=float(x))
    if isinstance(x, (R, Sp)):
        return dict(scalar=fval(x))
    if x is None:
        return None
    return dict(repr=repr(x))


def close(a, b, tol=1e-9):
    if a is None or b is None:
        return a is None and b is None
    if isinstance(a, list) and isinstance(b, list):
        return len(a) == len(b) and all(close(x, y, tol) for x, y in zip(a, b))
    if isinstance(a, dict) and isinstance(b, dict):
        if "scalar" in a or "scalar" in b:
            va = a.get("scalar", a.get("data", [None])[0] if a.get("shape") == [] else None)
            vb = b.get("scalar", b.get("data", [None])[0] if b.get("shape") == [] else None)
            return va is not None and vb is not None and num_close(va, vb, tol)
        if a.get("shape") != b.get("shape") or a.get("dtype") != b.get("dtype"):
            return False
        return all(num_close(x, y, tol) for x, y in zip(a["data"], b["data"]))
    return a == b


def num_close(x, y, tol):
    if x != x or y != y:
        return x != x and y != y
    if x in (float("inf"), float("-inf")) or y in (float("inf"), float("-inf")):
        return x == y
    return abs(x - y) <= tol * max(1.0, abs(x), abs(y))


# ------------------------------------------------------------------------------------------------ 1. op level
SNIPPETS = [
    "out = a @ b", "out = a @ a.T", "out = v @ a", "out = a @ w", "out = v @ v", "out = a.T", "out = a.t().reshape(-1)", "out = a.reshape(-1)", "out = a.view(3, 2)",
    "out = a.T.reshape(2, 3)", "out = a[0]", "out = a[:, 1]", "out = a[1:, :2]", "out = a[0, 1]", "out = a[:, 1:3]", "out = c3[1, :, 0]", "out = c3.reshape(2, -1)",
    "out = a.sum()", "out = a.sum(dim=0)", "out = a.sum(dim=1)", "out = a.mean(dim=0)", "out = a.abs().sum(dim=0)", "out = a.norm(dim=1)", "out = torch.linalg.norm(a, dim=1)",
    "out = torch.norm(a @ a.T)", "out = a + v.unsqueeze(1)", "out = a * w", "out = a / a.norm(dim=1).unsqueeze(1)", "out = a - 1", "out = 1 - a", "out = 2 * a", "out = a ** 2", "out = -a",
    "out = torch.cat([a, a], dim=0)", "out = torch.cat([a, a], dim=1)", "out = torch.concatenate([v, w])", "out = torch.stack([v, v])", "out = torch.vstack([w.unsqueeze(0), w.unsqueeze(0)])",
    "out = torch.diag(v)", "out = torch.diag(a @ a.T)", "out = v.diag()", "out = torch.eye(3)", "out = torch.zeros(2, 3)", "out = torch.ones(3)", "out = torch.full(size=[3], fill_value=0.5)",
    "out = torch.zeros_like(a)", "out = torch.ones_like(s0)", "out = s0.reshape([-1])", "out = torch.cat([s0.reshape([-1]), v]).diag()[:, 0:1].reshape((-1,) + s0.shape)",
    "out = a.isfinite().all()", "out = (a > 0)", "out = (a > 0) * (a < 1)", "out = (a > 0) + (a < 0)", "out = (a > 0) * a", "out = sum(v > 0)", "out = (v > 0).sum()",
    "out = torch.argmin(v)", "out = torch.max(v)", "out = torch.argsort(v, dim=-1, descending=True)", "out = v[torch.argsort(v, descending=True)][:2]", "out = a[:, torch.argsort(w, descending=True)][:, :2]",
    "out = torch.sort(a, dim=0)[0]", "out = torch.topk(v, k=1, largest=False)[0]", "out = torch.topk(a @ a.T, k=2, largest=False)[0][:, 1:]", "out = torch.topk(v, k=2, largest=False)[1]",
    "out = torch.narrow(a, dim=0, start=1, length=1)", "out = torch.cdist(a, a, compute_mode='donot_use_mm_for_euclid_dist')", "out = F.one_hot(torch.topk(v, k=1, largest=False)[1], num_classes=2)",
    "out = F.one_hot(torch.topk(v, k=2, largest=False)[1], num_classes=2).sum(dim=0).to(dtype=a.dtype) / 2",
    "out = torch.nan_to_num(a / (a - a), 0.0)", "out = torch.dot(w, w)", "out = torch.mm(a, a.t())", "out = torch.sum(torch.stack([torch.dot(g, w) for g in a]))",
    "out = torch.stack([v, v], dim=0)", "out = a.unsqueeze(0).squeeze(0)", "out = v.unsqueeze(0)", "out = a.clone()", "out = a.to(dtype=torch.float32).dtype == torch.float32",
    "x = a.clone(); r = x[0]; r += 1; out = x", "x = v.clone(); x[1] = 5.0; out = x", "x = v.clone(); x[0] -= 2.0 / 4.0; out = x", "x = a.clone(); y = x.view(-1); y += 1; out = x",
    "x = a.clone(); y = x.T; y += 1; out = x", "x = a.clone(); y = x.reshape(3, 2); y.zero_(); out = x", "x = a.clone(); g = x[:, 0:1].view(2); g += 3; out = x",
    "out = a.view(1, -1)", "out = a.T.view(-1)", "out = a[:, 0:2].view(-1)", "out = a[:, 0:2].reshape(-1)", "out = a[0:1].view(a[0:1].shape[0], -1)", "out = c3.view(c3.shape[0], -1)", "out = c3[:, 0:1].view(2, -1)",
    "out = v.view(s0.shape)", "out = v[0:1].view(s0.shape)", "out = (a @ w).view((2,) + s0.shape)", "out = torch.cat([v, s0])", "out = torch.stack([s0, s0], dim=0)",
    "out = a.to(torch.float32) @ w", "out = (a.to(torch.float32) * 2).dtype == torch.float32", "out = (a.to(torch.float32) + a).dtype == torch.float64",
    "out = torch.tensor([1.0, 2.0]) @ a.to(torch.float32)", "out = len(a)", "out = a.shape[0] + a.shape[1]", "out = a.numel()", "out = a.dim()", "out = s0.ndim", "out = list(a.shape)",
    "out = torch.empty((0,) + v.shape).shape[0]", "out = a.squeeze(0)", "out = a[0:1].squeeze(0)", "out = torch.where(a > 0, a, torch.zeros_like(a))",
    "out = 0.5 * (torch.ones_like(a[0]) + a.sum(dim=0) / a.abs().sum(dim=0))", "out = v.sum().abs() < 1e-12", "out = bool(torch.max(v) < 0.5)",
    "out = torch.as_tensor(a.cpu().detach().numpy().astype('float64'), dtype=a.dtype)", "out = torch.from_numpy(a.numpy().T.copy())",
    # alternative spellings a refactoring may use
    "out = torch.split(a, [1, 2], dim=1)[1]", "out = torch.split(a, 2, dim=1)[1]", "out = a.split(1, dim=0)[1]", "out = torch.chunk(a, 2, dim=1)[0]", "out = torch.chunk(a, 2, dim=1)[1]",
    "out = torch.stack(a.unbind(1))", "out = torch.tensor_split(a, 2, dim=1)[0]", "out = torch.column_stack([v, v])", "out = torch.einsum('ij,kj->ik', a, a)", "out = torch.einsum('i,ij->j', v, a)",
    "out = torch.einsum('ij,j->i', a, w)", "out = torch.einsum('i,i->', w, w)", "out = torch.linalg.vector_norm(a, ord=2, dim=1, keepdim=True)", "out = torch.linalg.vector_norm(a, dim=1)",
    "out = a.cumsum(1)", "out = a.masked_fill(a > 0, 0.0)", "out = a.index_select(1, torch.tensor([2, 0]))", "out = a.clamp_min(0.0)", "out = torch.clamp_max(a, 0.5)", "out = a.amax(dim=1)",
    "out = a.amin(dim=0)", "out = a[a.norm(dim=1) > 1.0]", "out = v[v > 0]", "out = a[a > 0]", "x = a.clone(); s = torch.split(x, [1, 2], dim=1)[0]; s += 1; out = x", "out = a.flatten()",
    "out = torch.cat([g.flatten() for g in a], dim=0)", "out = (a * (w ** 2).unsqueeze(0)) @ b", "out = (a * w ** 2) @ b", "out = torch.logical_and(a > 0, a < 1)", "out = a[0]._is_view()", "out = a.clone()._is_view()",
    "x = b.clone(); y = x[:2, :2].diagonal(); y += 1; out = x", "x = a.clone(); y = x.unbind(0)[1]; y *= 2; out = x", "x = a.clone(); y = x.chunk(2, dim=1)[1]; y.zero_(); out = x",
    "x = a.clone(); y = x.flatten(); y += 1; out = x", "x = a.clone(); y = x.T.flatten(); y += 1; out = x", "x = v.clone(); y = x.unsqueeze(0).expand(3, 2); x += 1; out = y",
    "x = a.clone(); y = x.view_as(a); y -= 1; out = x", "x = a.clone(); y = x.detach(); y += 1; out = x", "x = a.clone(); y = x.numpy(); y += 1; out = x", "x = a.clone(); y = x.contiguous(); y += 1; out = x",
    "x = a.clone(); y = x.T.contiguous(); y += 1; out = x", "x = a.clone(); y = x.to(a.dtype); y += 1; out = x", "x = a.clone(); y = x.to(torch.float32); y += 1; out = x",
    "x = a.clone(); y = x[torch.tensor([0])]; y += 1; out = x", "x = a.clone(); y = x[[0, 1]]; y += 1; out = x", "x = a.clone(); y = x.squeeze(); y += 1; out = x", "x = a.clone(); y = x.reshape(2, 3); y += 1; out = x",
    "out = a[:, w > 0]" if False else "out = a[:, torch.tensor([True, False, True])]", "g = a @ a.T; mk = torch.tensor([True, False]); out = g[mk][:, mk]",
    "x = torch.zeros(3, dtype=a.dtype); x[torch.tensor([True, False, True])] = v; out = x", "x = torch.zeros(3, 2, dtype=a.dtype); x[torch.tensor([False, True, True])] = a[:, :2]; out = x",
    "out = list(a.stride()) + list(a.T.stride())", "out = torch.arange(6, dtype=a.dtype).as_strided((3, 2), (1, 3))", "out = a.reshape(-1).as_strided(a.T.shape, a.T.stride())",
    "x = a.clone().reshape(-1); y = x.as_strided((2, 2), (1, 2)); y += 1; out = x", "out = a.reshape(-1).view(3, 2).T.contiguous().stride()[0]",
    "out = torch.topk(a.masked_fill(a > 0, float('inf')), k=2, largest=False)[0]", "out = torch.sort(a.masked_fill(a < 0, float('-inf')), dim=1)[0]",
    "g = a @ a.T; out = torch.topk(g.masked_fill(torch.eye(2, dtype=torch.bool), float('inf')), k=1, largest=False)[0]", "out = torch.sort(a.masked_fill(a > 0, float('inf')), dim=1, descending=True)[0]",
    "x = torch.zeros(4, dtype=a.dtype); x[torch.tensor([0, 2])] = 1.0; out = x", "x = torch.zeros(2, 3, dtype=a.dtype); x[:, [0, 2]] = v.unsqueeze(1); out = x",
    "x = torch.zeros(3, 2, dtype=a.dtype); x[torch.tensor([2, 0])] = a[:, :2].T[:2]; out = x", "x = torch.zeros(3, dtype=a.dtype); x[torch.tensor([1])] += 2.0; out = x",
    "x = torch.zeros(2, dtype=a.dtype); x[torch.topk(v, k=1, largest=False)[1]] = 1.0; out = x / 1", "x = torch.zeros(3, dtype=a.dtype); x[torch.topk(w, k=2, largest=False)[1]] = 1.0; out = x / 2",
]
ERR_SNIPPETS = ["out = a @ v", "out = a.view(4, 2)", "out = a.T.view(-1)", "out = torch.cat([a, v])", "out = v[5]", "out = torch.stack([v, w])", "out = a + torch.ones(4)", "out = torch.dot(a, a)",
                "out = a.to(torch.float32) @ w.to(torch.float64)", "out = len(s0)", "out = torch.topk(v, k=3)", "x = a.clone(); x[0] += torch.ones(2); out = x"]


def rnd_tensor(rng, shape):
    n = 1
    for s in shape:
        n *= s
    vals = [Fraction(rng.randint(-6, 6), rng.choice([1, 2, 4])) for _ in range(n)]
    return vals


def validate_ops(rng, rounds=4):
    bad, n = [], 0
    for r in range(rounds):
        setup = {"a": (2, 3), "b": (3, 2), "v": (2,), "w": (3,), "s0": (), "c3": (2, 2, 2)}
        vals = {k: rnd_tensor(rng, s) for k, s in setup.items()}
        req = dict(snippets=[dict(setup={k: dict(shape=list(setup[k]), data=[float(x) for x in vals[k]]) for k in setup}, code=c) for c in SNIPPETS + ERR_SNIPPETS])
        res = real(req)["snippets"]
        for code, rr in zip(SNIPPETS + ERR_SNIPPETS, res):
            n += 1
            env = {"torch": torch, "F": torch.nn.functional}
            sp = symx.Space()
            symx.SPACE = sp
            sp.begin_path()
            for k, s in setup.items():
                env[k] = torch.Tensor._make([R(x) for x in vals[k]], s, torch.float64, "real")
            try:
                exec(code, env)
                mine = dict(ok=enc(env["out"]))
            except symx.ShimUnsupported as e:
                mine = dict(unsupported=str(e))
            except Exception as e:  # noqa
                mine = dict(error=type(e).__name__)
            if "unsupported" in mine:
                continue
            if ("error" in rr) != ("error" in mine):
                bad.append((code, rr, mine))
            elif "ok" in rr and not close(json.loads(json.dumps(mine["ok"]).replace('"torch.', '"').replace("torch.", "")), rr["ok"]):
                bad.append((code, rr, mine))
    return n, bad


# ------------------------------------------------------------------------------------------------ 2. autograd model
def random_spec(rng):
    shapes = [(), (1,), (2,), (1, 2), (2, 1)]
    leaves = [(f"l{i}", rng.choice(shapes), rng.random() < 0.8) for i in range(rng.randint(1, 3))]
    if not any(l[2] for l in leaves):
        leaves[0] = (leaves[0][0], leaves[0][1], True)
    names = [l[0] for l in leaves]
    ops = []
    for k in range(rng.randint(1, 4)):
        ins = rng.sample(names, rng.randint(1, min(3, len(names))))
        nout = 2 if rng.random() < 0.25 else 1
        outs = [(f"t{k}_{j}", rng.choice(shapes)) for j in range(nout)]
        deps = {(j, i) for j in range(nout) for i in range(len(ins)) if rng.random() < 0.8} or {(0, 0)}
        ops.append(dict(name=f"op{k}", inputs=ins, outs=outs, deps=deps, saves=rng.random() < 0.6, vmap_ok=True))
        names += [o[0] for o in outs]
    return dict(leaves=leaves, ops=ops)


def validate_autograd(rng, n_prog=60):
    from harness.autojac_common import Prog, spec_json, numel
    import z3
    bad, n = [], 0
    reqs, mine_all = [], []
    for p in range(n_prog):
        spec = random_spec(rng)
        sp = symx.Space()
        symx.SPACE = sp
        sp.begin_path()
        prog = Prog(spec)
        # concrete local Jacobians
        jac_vals = {}
        for (o, ins, outs, jac) in prog.ops:
            for (k, i), M in jac.items():
                for r in range(len(M)):
                    for c in range(len(M[r])):
                        M[r][c] = R(Fraction(rng.randint(-4, 4), rng.choice([1, 2])))
                jac_vals[f"{o['name']}:{k}:{i}"] = [[float(x.frac()) for x in row] for row in M]
        nonleaf = [n_ for n_ in prog.order if prog[n_].grad_fn is not None]
        reqgrad = [n_ for n_ in prog.order if prog[n_].requires_grad]
        if not nonleaf:
            continue
        steps, mine = [], []
        for s in range(rng.randint(1, 3)):
            outs = rng.sample(nonleaf, rng.randint(1, min(2, len(nonleaf))))
            cot = [[float(rng.randint(-3, 3)) for _ in range(prog[n_].numel())] for n_ in outs]
            retain = rng.random() < 0.5
            if rng.random() < 0.6:
                ins = rng.sample(reqgrad, rng.randint(1, min(3, len(reqgrad))))
                ins = [i for i in ins if i not in outs] or [reqgrad[0]]
                steps.append(dict(op="grad", outputs=outs, inputs=ins, cot=cot, retain=retain))
                try:
                    gs = torch.autograd.grad([prog[n_] for n_ in outs], [prog[n_] for n_ in ins],
                                             grad_outputs=[torch.Tensor._make([R(Fraction(x)) for x in c], prog[n_].shape, prog[n_].dtype, "real") for n_, c in zip(outs, cot)],
                                             retain_graph=retain, allow_unused=True)
                    mine.append(dict(ok=[None if g is None else [fval(x) for x in g._flat()] for g in gs]))
                except RuntimeError:
                    mine.append(dict(error="RuntimeError"))
            else:
                leaf_ins = [l for l in prog.leaf_names() if prog[l].requires_grad]
                ins = rng.sample(leaf_ins, rng.randint(1, len(leaf_ins))) if rng.random() < 0.5 else None
                steps.append(dict(op="backward", outputs=outs, inputs=ins, cot=cot, retain=retain))
                try:
                    torch.autograd.backward([prog[n_] for n_ in outs], grad_tensors=[torch.Tensor._make([R(Fraction(x)) for x in c], prog[n_].shape, prog[n_].dtype, "real") for n_, c in zip(outs, cot)],
                                            retain_graph=retain, inputs=None if ins is None else [prog[n_] for n_ in ins])
                    mine.append(dict(ok={l: (None if prog[l].grad is None else [fval(x) for x in prog[l].grad._flat()]) for l in prog.leaf_names()}))
                except RuntimeError:
                    mine.append(dict(error="RuntimeError"))
        reqs.append(dict(spec=spec_json(spec), jac=jac_vals, steps=steps))
        mine_all.append(mine)
    res = real(dict(programs=reqs))["programs"]
    for rq, mine, theirs in zip(reqs, mine_all, res):
        for st, a, b in zip(rq["steps"], mine, theirs):
            n += 1
            if ("error" in a) != ("error" in b):
                bad.append((rq["spec"], st, a, b))
                break
            if "ok" in a:
                if isinstance(a["ok"], list):
                    okk = len(a["ok"]) == len(b["ok"]) and all((x is None and y is None) or (x is not None and y is not None and all(num_close(p, q, 1e-9) for p, q in zip(x, y))) for x, y in zip(a["ok"], b["ok"]))
                else:
                    okk = all(((a["ok"][k] is None) == (b["ok"][k] is None)) and (a["ok"][k] is None or all(num_close(p, q, 1e-9) for p, q in zip(a["ok"][k], b["ok"][k]))) for k in a["ok"])
                if not okk:
                    bad.append((rq["spec"], st, a, b))
                    break
    return n, bad


# ------------------------------------------------------------------------------------------------ 3. aggregators on the repository's test matrices
def validate_aggs(rng):
    from torchjd.aggregation import Mean, Sum, Constant, PCGrad, MGDA, TrimmedMean, Krum, GradDrop, IMTLG
    mats = real(dict(want_repo_matrices=True))["matrices"]
    mats += [[[-4.0, 1.0, 1.0], [6.0, 1.0, 1.0]], [[1.0, 0.0], [0.0, 1.0], [1.0, 1.0]], [[0.0, 0.0], [1.0, -2.0]], [[2.0, 1.0], [2.0, 1.0], [-1.0, 3.0], [0.5, 0.5]]]
    bad, n = [], 0
    reqs, mine = [], []
    for J in mats:
        m, ncol = len(J), len(J[0])
        perms_ = [rng.sample(range(m), m) for _ in range(m)]
        U = [rng.random() for _ in range(ncol)]
        todo = [("mean", {}, None, None), ("sum", {}, None, None), ("constant", {}, [float(i + 1) for i in range(m)], None), ("pcgrad", {}, None, None),
                ("mgda", dict(epsilon=0.001, max_iters=3), None, None), ("graddrop", {}, None, None)]
        if m >= 3:
            todo += [("trimmed_mean", dict(b=1), None, None), ("krum", dict(f=0, k=1), None, None)]
        for name, params, vec, _ in todo:
            n += 1
            reqs.append(dict(agg=name, J=J, params=params, vec=vec, orders=perms_ if name == "pcgrad" else None, U=U if name == "graddrop" else None))
            sp = symx.Space(timeout_ms=20000)
            symx.SPACE = sp
            sp.begin_path()
            torch.KERNELS.clear()
            Jt = torch.Tensor._make([R(Fraction(x)) for r in J for x in r], (m, ncol), torch.float64, "real")
            try:
                if name == "mean":
                    A = Mean()
                elif name == "sum":
                    A = Sum()
                elif name == "constant":
                    A = Constant(torch.Tensor._make([R(Fraction(x)) for x in vec], (m,), torch.float64, "real"))
                elif name == "pcgrad":
                    A = PCGrad()
                    it = iter(perms_)
                    old = torch.randperm
                    torch.randperm = lambda k, **kw: torch.Tensor._make(list(next(it)), (k,), torch.int64, "int")
                elif name == "mgda":
                    A = MGDA(epsilon=0.001, max_iters=3)
                elif name == "graddrop":
                    A = GradDrop()
                    oldr = torch.rand
                    torch.rand = lambda *a, **k: torch.Tensor._make([R(Fraction(x)) for x in U], (ncol,), torch.float64, "real")
                elif name == "trimmed_mean":
                    A = TrimmedMean(1)
                else:
                    A = Krum(0, 1)
                out = A(Jt)
                vals = []
                for x in out._flat():
                    if isinstance(x, R) and not x.conc:
                        assert sp.check() == "sat"
                        vals.append(float(symx.mval(sp.last_model, x)))
                    else:
                        vals.append(fval(x))
                mine.append(dict(ok=vals))
            except symx.Inconclusive as e:
                mine.append(dict(unsupported=str(e)))
            except Exception as e:  # noqa
                mine.append(dict(error=type(e).__name__))
            finally:
                if name == "pcgrad":
                    torch.randperm = old
                if name == "graddrop":
                    torch.rand = oldr
    res = real(dict(aggs=reqs))["aggs"]
    for rq, a, b in zip(reqs, mine, res):
        if "unsupported" in a:
            continue
        if ("error" in a) != ("error" in b) or ("ok" in a and not all(num_close(x, y, 1e-6) for x, y in zip(a["ok"], b["ok"]))):
            bad.append((rq["agg"], rq["J"], a, b))
    return n, bad


def main():
    seed = int(os.environ.get("VERIF_SEED", "0") or 0)
    if "--seed" in sys.argv:
        seed = int(sys.argv[sys.argv.index("--seed") + 1])
    rng = random.Random(seed)
    total_bad = 0
    report = {}
    for name, fn in (("ops", validate_ops), ("autograd", validate_autograd), ("aggregators", validate_aggs)):
        n, bad = fn(rng)
        report[name] = dict(cases=n, disagreements=len(bad))
        print(f"validate[{name}]: {n} cases, {len(bad)} disagreements")
        for b in bad[:8]:
            print("   DISAGREE:", json.dumps(b, default=str)[:700])
        total_bad += len(bad)
    with open(os.path.join(ROOT, "evidence", "validate.json"), "w") as fh:
        json.dump(dict(seed=seed, report=report), fh, indent=1)
    return 1 if total_bad else 0


if __name__ == "__main__":
    sys.exit(main())
