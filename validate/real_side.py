"""REAL side of the differential validation (run with /venv/bin/python): evaluates snippets / programs / aggregators with the real libraries."""
import json
import os
import sys
import warnings

warnings.simplefilter("ignore")
sys.path.insert(0, os.path.join(os.environ.get("VERIF_REPO", "/repo"), "src"))
sys.path.insert(0, os.path.join(os.path.dirname(os.path.abspath(__file__)), "..", "replay"))
import numpy as np
import torch


def enc(x):
    if isinstance(x, torch.Tensor):
        return dict(shape=list(x.shape), dtype=str(x.dtype).replace("torch.", ""), data=x.detach().to(torch.float64).reshape(-1).tolist() if x.dtype != torch.bool else [float(v) for v in x.reshape(-1).tolist()])
    if isinstance(x, (tuple, list)):
        return [enc(y) for y in x]
    if isinstance(x, (int, float, bool)):
        return dict(scalar=float(x))
    if x is None:
        return None
    return dict(repr=repr(x))


def run_snippet(s):
    env = {"torch": torch, "F": torch.nn.functional}
    for k, v in s["setup"].items():
        env[k] = torch.tensor(v["data"], dtype=getattr(torch, v.get("dtype", "float64"))).reshape(v["shape"])
    try:
        exec(s["code"], env)
        return dict(ok=enc(env["out"]))
    except Exception as e:  # noqa
        return dict(error=type(e).__name__)


def run_program(p):
    from real_autojac import RealProg
    prog = RealProg(p["spec"], p["jac"])
    res = []
    for step in p["steps"]:
        try:
            if step["op"] == "grad":
                gs = torch.autograd.grad([prog[n] for n in step["outputs"]], [prog[n] for n in step["inputs"]],
                                         grad_outputs=[torch.tensor(g, dtype=torch.float64).reshape(prog[n].shape) for n, g in zip(step["outputs"], step["cot"])],
                                         retain_graph=step["retain"], allow_unused=True)
                res.append(dict(ok=[None if g is None else g.reshape(-1).tolist() for g in gs]))
            else:
                kw = {}
                if step.get("inputs"):
                    kw["inputs"] = [prog[n] for n in step["inputs"]]
                torch.autograd.backward([prog[n] for n in step["outputs"]], grad_tensors=[torch.tensor(g, dtype=torch.float64).reshape(prog[n].shape) for n, g in zip(step["outputs"], step["cot"])],
                                        retain_graph=step["retain"], **kw)
                res.append(dict(ok={n: (None if prog[n].grad is None else prog[n].grad.reshape(-1).tolist()) for n in [l[0] for l in p["spec"]["leaves"]]}))
        except RuntimeError as e:
            res.append(dict(error="RuntimeError"))
    return res


def run_agg(a):
    from real_agg import make_agg
    J = torch.tensor(a["J"], dtype=torch.float64)
    A = make_agg(a["agg"], J.shape[0], a.get("params"), a.get("vec"))
    orders = a.get("orders")
    try:
        if orders:
            it = iter(orders)
            old = torch.randperm
            torch.randperm = lambda n, **k: torch.tensor(next(it))
        if a.get("U") is not None:
            oldr = torch.rand
            torch.rand = lambda *x, **k: torch.tensor(a["U"], dtype=torch.float64)
        out = A(J)
        return dict(ok=out.tolist())
    except Exception as e:  # noqa
        return dict(error=type(e).__name__)
    finally:
        if orders:
            torch.randperm = old
        if a.get("U") is not None:
            torch.rand = oldr


def repo_matrices():
    """small matrices taken from the repository's own test inputs"""
    sys.path.insert(0, os.path.join(os.environ.get("VERIF_REPO", "/repo"), "tests"))
    out = []
    try:
        from unit.aggregation import _inputs as inp
        for name in dir(inp):
            v = getattr(inp, name)
            if isinstance(v, (list, tuple)):
                for m in v:
                    if isinstance(m, torch.Tensor) and m.dim() == 2 and 0 < m.shape[0] <= 4 and 0 < m.shape[1] <= 5 and torch.isfinite(m).all() and m.abs().max() < 1e3:
                        out.append(m.to(torch.float64).tolist())
    except Exception as e:  # noqa
        pass
    return out[:25]


def main():
    req = json.load(sys.stdin)
    if req.get("want_repo_matrices"):
        print(json.dumps(dict(matrices=repo_matrices())))
        return
    print(json.dumps(dict(snippets=[run_snippet(s) for s in req.get("snippets", [])], programs=[run_program(p) for p in req.get("programs", [])],
                          aggs=[run_agg(a) for a in req.get("aggs", [])])))


main()
