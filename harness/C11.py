"""C11 - aggregators are total, pure, stateless and positively homogeneous."""
from harness.common import *
from harness.C16 import _free_dist
from torchjd.aggregation import (UPGrad, DualProj, MGDA, PCGrad, CAGrad, IMTLG, AlignedMTL, ConFIG, Constant, GradDrop, Krum, Mean,
                                 Random, Sum, TrimmedMean)

ASSUMPTIONS = [
    "every aggregator except NashMTL; weighted aggregators are run on Gram-only matrices (spectral domain = ALL Gramians incl. rank deficient, zero and duplicate rows; "
    "free PSD domain; distance-only domain for Krum), TrimmedMean / GradDrop / ConFIG on entry-level matrices",
    "totality: no path ends in an exception other than the documented ValueErrors and no IEEE special (nan/inf, tracked concretely) reaches the output; "
    "overflow/underflow over '27 orders of magnitude' is a floating-point notion and is outside (exact reals have no range)",
    "purity: a Gram-only matrix cannot be written without being read (any entry access raises), entry-level inputs are compared before/after and their storage write counter must be 0",
    "statelessness: A(J1); A(J2) compared with a fresh A'(J2) on the same path; kernels are deterministic functions (syntactically equal arguments give the same answer)",
    "homogeneity: A(tJ) = t A(J) for symbolic t > 0, stated on weights for Gram-only runs: (w' - w)^T G (w' - w) = 0; UPGrad/DualProj/CAGrad under s >= norm_eps and t s >= norm_eps (m = 2)",
    "dtype: tags float32/float64 are propagated by the environment model exactly as by torch's promotion rules for the operations used; the output tag must equal the input's",
    "randomised aggregators: equal seeds = equal symbolic stream contents",
]

WEIGHTED = ["mean", "sum", "constant", "upgrad", "dualproj", "mgda", "pcgrad", "cagrad", "imtlg", "alignedmtl", "krum", "random"]
SPECTRAL = {"upgrad", "dualproj", "cagrad", "imtlg", "alignedmtl"}


def bounds(tier):
    return dict(total=dict(gram_m=[1, 2] + ([3] if tier == "thorough" else []), entry="m,n in {1,2} (+ (3,1),(1,3),(3,2))"),
                rejections=dict(shapes=["()", "(3,)", "(2,2,2)"], specials=["nan", "+inf", "-inf"], row_counts="Constant, GradDrop(leak), TrimmedMean, Krum"),
                homogeneity=dict(gram_m=[1, 2], entry="m,n <= 2"), statelessness="two calls + fresh instance")


def cases(tier):
    cs = []
    for a in WEIGHTED:
        for m in ((1, 2, 3) if (tier == "thorough" or a in ("imtlg", "mean", "sum", "constant", "random", "pcgrad")) else (1, 2)):
            if a == "krum" and m < 3:
                continue
            if a in ("cagrad", "alignedmtl") and m == 3:
                continue
            cs.append(dict(name=f"total_{a}_m{m}", fn="total", args=dict(agg=a, m=m), weight=m ** 2 * (4 if a in SPECTRAL else 1)))
    cs.append(dict(name="total_krum_m3", fn="total", args=dict(agg="krum", m=3), weight=3))
    cs.append(dict(name="total_krum_m4", fn="total", args=dict(agg="krum", m=4), weight=6))
    for a in ("trimmed_mean", "graddrop", "config"):
        for (m, n) in [(1, 1), (2, 1), (1, 2), (3, 1)] + (([(2, 2), (3, 2), (1, 3)] if a != "config" else [(2, 2), (1, 3)] if tier == "thorough" else [])):
            cs.append(dict(name=f"total_{a}_{m}x{n}", fn="total_entry", args=dict(agg=a, m=m, n=n), weight=m * n * (6 if a == "config" else 1)))
    for a in WEIGHTED + ["trimmed_mean", "graddrop"]:
        cs.append(dict(name=f"reject_{a}", fn="reject", args=dict(agg=a), weight=2))
    for a in WEIGHTED:
        for m in (1, 2):
            if a == "krum":
                continue
            cs.append(dict(name=f"homog_{a}_m{m}", fn="homog", args=dict(agg=a, m=m), weight=m ** 2 * (5 if a in SPECTRAL else 1)))
    cs.append(dict(name="homog_krum_m3", fn="homog", args=dict(agg="krum", m=3), weight=4))
    for a in ("trimmed_mean", "graddrop", "config"):
        cs.append(dict(name=f"homog_{a}", fn="homog_entry", args=dict(agg=a), weight=6))
    for a in WEIGHTED:
        cs.append(dict(name=f"stateless_{a}", fn="stateless", args=dict(agg=a), weight=4 if a in SPECTRAL else 1))
    for a in ("config", "constant", "graddrop", "upgrad", "dualproj"):
        cs.append(dict(name=f"vectors_untouched_{a}", fn="vectors_untouched", args=dict(agg=a), weight=2))
    for a in ("pcgrad", "random", "graddrop"):
        cs.append(dict(name=f"seeded_{a}", fn="seeded", args=dict(agg=a), weight=2))
    return cs


def make(agg, m, dtype=None, tag=""):
    dt = dtype or torch.float32
    if agg == "mean":
        return Mean()
    if agg == "sum":
        return Sum()
    if agg == "constant":
        return Constant(T([named(f"cw{i}") for i in range(m)], dt))
    if agg == "upgrad":
        return UPGrad(norm_eps=named("norm_eps"), reg_eps=named("reg_eps"))
    if agg == "dualproj":
        return DualProj(pref_vector=T([named(f"u{i}") for i in range(m)], dt), norm_eps=named("norm_eps"), reg_eps=named("reg_eps"))
    if agg == "mgda":
        return MGDA(epsilon=named("epsilon"), max_iters=2 if m <= 2 else 1)
    if agg == "pcgrad":
        return PCGrad()
    if agg == "cagrad":
        return CAGrad(c=named("c"), norm_eps=named("norm_eps"))
    if agg == "imtlg":
        return IMTLG()
    if agg == "alignedmtl":
        return AlignedMTL()
    notes = symx.space().notes
    if agg == "krum":
        if "krum_k" not in notes:
            notes["krum_k"] = 1 + choice(2, "n_selected")
        return Krum(n_byzantine=0 if m == 3 else 1, n_selected=notes["krum_k"])
    if agg == "random":
        return Random()
    if agg == "trimmed_mean":
        return TrimmedMean((m - 1) // 2 if m > 2 else 0)
    if agg == "graddrop":
        if "gd_leak" not in notes:
            notes["gd_leak"] = choice(2, "leak")
        return GradDrop(leak=T([named(f"leak{i}") for i in range(m)], dt) if notes["gd_leak"] else None)
    if agg == "config":
        return ConFIG()
    raise KeyError(agg)


def assume_params(agg, m):
    if agg in ("upgrad", "dualproj", "cagrad"):
        assume(named("norm_eps") > 0)
    if agg in ("upgrad", "dualproj"):
        assume(named("reg_eps") > 0)
    if agg == "dualproj":
        for i in range(m):
            assume(named(f"u{i}") >= 0)
    if agg == "mgda":
        assume(named("epsilon") >= 0)
    if agg == "cagrad":
        assume(named("c") >= 0)
    if agg == "graddrop":
        for i in range(m):
            assume(named(f"leak{i}") >= 0)
            assume(named(f"leak{i}") <= 1)


def domain(sp, agg, m, name="g", n=None):
    """-> (Gram-only J, G or None)"""
    if agg == "krum":
        d = _free_dist(m)
        return torch.GramOnly(None, n or m, dist=d), None, d
    if agg == "imtlg" and m >= 3:
        # m = 3: the spectral closed form of pinv exceeds the solver; pinv is an ARBITRARY kernel here (fresh unconstrained symmetric-free matrix),
        # which is stronger for totality / Gram-only claims: they hold whatever the kernel returns
        G = free_gram(m, name)
        X = [[fresh(f"X{i}{j}") for j in range(m)] for i in range(m)]
        torch.KERNELS["pinv"] = lambda A: T(X, A.dtype)
        return gram_only(G, n), G, None
    if agg in SPECTRAL:
        G, hint, sig = spectral_gram(m, name)
        torch.KERNELS["eigbasis"] = hint
        if agg == "cagrad":
            sp.sqrt_candidates = [sig[k] / sig[0] for k in range(m)] if bool(sig[0] > 0) else []
        return gram_only(G, n), G, sig
    G = free_gram(m, name)
    return gram_only(G, n), G, None


def params_cex(model, agg, m):
    names = ["norm_eps", "reg_eps", "epsilon", "c"] + [f"u{i}" for i in range(m)] + [f"cw{i}" for i in range(m)] + [f"leak{i}" for i in range(m)]
    return cex_values(model, **{k: named(k) for k in names})


def case_total(sp, agg, m):
    set_kernels(sort_mode="axiom")
    dt = [torch.float32, torch.float64][choice(2, "dtype")]
    J, G, extra = domain(sp, agg, m)
    J.dtype = dt
    assume_params(agg, m)
    def cex(model, why=""):
        d = dict(kind="total", agg=agg, m=m, dtype=str(dt), why=why, params=params_cex(model, agg, m))
        if G is not None:
            d.update(cex_values(model, G=G))
        else:
            d.update(cex_values(model, dist=extra))
        return d
    try:
        out = make(agg, m, dt)(J)
    except (ValueError, RuntimeError, TypeError, ZeroDivisionError, IndexError, torch.GramOnlyRead) as e:
        return [Ob(f"no_exception[{agg}]", False, lambda model, e=e: cex(model, f"raised {type(e).__name__}: {e}"))]
    w = out._w._flat()
    obs = [Ob(f"one_entry_per_column_in_input_dtype[{agg}]", tuple(out.shape) == (J.shape[1],) and out.dtype is dt and out._w.dtype is dt, cex),
           Ob(f"finite_result[{agg}]", not any(isinstance(x, Sp) for x in w), cex)]
    return obs


def case_total_entry(sp, agg, m, n):
    set_kernels()
    dt = [torch.float32, torch.float64][choice(2, "dtype")]
    Jt, J = entry_matrix(m, n, dtype=dt)
    assume_params(agg, m)
    before = list(Jt._flat())
    def cex(model, why=""):
        return dict(kind="total_entry", agg=agg, dtype=str(dt), why=why, params=params_cex(model, agg, m), **cex_values(model, J=J))
    try:
        out = make(agg, m, dt)(Jt)
    except (ValueError, RuntimeError, TypeError, ZeroDivisionError, IndexError) as e:
        return [Ob(f"no_exception[{agg}]", False, lambda model, e=e: cex(model, f"raised {type(e).__name__}: {e}"))]
    fl = out._flat()
    return [Ob(f"one_entry_per_column_in_input_dtype[{agg}]", tuple(out.shape) == (n,) and out.dtype is dt, cex),
            Ob(f"finite_result[{agg}]", not any(isinstance(x, Sp) for x in fl), cex),
            Ob(f"input_not_modified[{agg}]", Jt._storage.writes == 0 and all(a is b for a, b in zip(Jt._flat(), before)), cex)]


def case_reject(sp, agg):
    set_kernels()
    kind = choice(3, "rejection_kind")  # 0: not 2-d, 1: non-finite element, 2: row count
    m = 4 if agg == "krum" else 3
    assume_params(agg, m)
    A = make(agg, m)
    descr = dict(kind="reject", agg=agg)
    if kind == 0:
        shape = [(), (3,), (2, 2, 2)][choice(3, "shape")]
        X = torch.ones(shape)
        descr.update(what="shape", shape=list(shape))
    elif kind == 1:
        n = 2
        Jt, J = entry_matrix(m, n)
        pos = choice(m * n, "position")
        special = [symx.NAN, symx.INF, symx.NINF][choice(3, "special")]
        flat = [x for r in J for x in r]
        flat[pos] = special
        X = torch.Tensor._make(flat, (m, n), torch.float32, "real")
        descr.update(what="special", special=special.k, position=pos, m=m, n=n)
    else:
        bad_m = {"constant": [2, 4], "graddrop": [2, 4], "trimmed_mean": [2, 1, 0], "krum": [3, 2, 0]}.get(agg)
        if bad_m is None:
            raise symx.PathAbort("no row-count requirement")
        if agg == "graddrop":
            A = GradDrop(leak=T([named(f"leak{i}") for i in range(m)]))
        if agg == "trimmed_mean":
            A = TrimmedMean(1)
        mm = bad_m[choice(len(bad_m), "rows")]
        X = entry_matrix(mm, 2)[0]
        descr.update(what="rows", rows=mm)
    del torch.EVENTS[:]
    try:
        A(X)
    except ValueError:
        return [Ob(f"invalid_input_rejected_with_ValueError[{agg}]", True)]
    except (RuntimeError, TypeError, IndexError, ZeroDivisionError) as e:
        return [Ob(f"invalid_input_rejected_with_ValueError[{agg}]", False, lambda model, e=e: dict(descr, raised=type(e).__name__))]
    return [Ob(f"invalid_input_rejected_with_ValueError[{agg}]", False, lambda model: dict(descr, raised=None))]


def _install_pinv_kernel(sp, facts):
    """pinv as an arbitrary deterministic kernel: the first call returns a fresh unconstrained matrix X; `facts` maps later arguments
    (recognised by the solver) to the value the Moore-Penrose inverse must then take (e.g. pinv(t^2 G) = pinv(G) / t^2)."""
    state = {}
    def pinv(A):
        rows = tlist(A)
        m = len(rows)
        flat = [x for r in rows for x in r]
        if "X" not in state:
            state["A"] = flat
            state["X"] = [[fresh(f"X{i}{j}") for j in range(m)] for i in range(m)]
            return T(state["X"], A.dtype)
        if sp.proved(eq_all(flat, state["A"])):
            return T(state["X"], A.dtype)
        for arg_of, val_of in facts:
            if sp.proved(eq_all(flat, arg_of(state["A"]))):
                return T(val_of(state["X"]), A.dtype)
        key = ("pinv2",)
        if key not in state:
            state[key] = (flat, [[fresh(f"Y{i}{j}") for j in range(m)] for i in range(m)])
            return T(state[key][1], A.dtype)
        if sp.proved(eq_all(flat, state[key][0])):
            return T(state[key][1], A.dtype)
        raise symx.ShimUnsupported("pinv kernel: third distinct argument")
    torch.KERNELS["pinv"] = pinv


def _second_run_candidates(first_events, transform):
    firsts = [e for e in first_events if e[0] == "kernel" and e[1] in ("solve_qp", "cvxpy_simplex")]
    torch.KERNELS["qp_candidates"] = lambda: [transform(e[3]._flat()) for e in firsts if e[1] == "solve_qp"]
    torch.KERNELS["cvx_candidates"] = lambda: [(transform(e[3]), e[4]) for e in firsts if e[1] == "cvxpy_simplex"]


def case_homog(sp, agg, m):
    set_kernels(sort_mode="axiom")
    t = named("t")
    assume(t > 0)
    assume_params(agg, m)
    if agg == "krum":
        d = _free_dist(m)
        A = make(agg, m)
        w = A(torch.GramOnly(None, m, dist=d))._w._flat()
        w2 = A(torch.GramOnly(None, m, dist=[[t * x for x in r] for r in d]))._w._flat()
        return [Ob("positively_homogeneous[krum]", eq_all(w, w2), lambda model: dict(kind="homogeneity_krum", **cex_values(model, dist=d, t=t, w=w, w_scaled_run=w2)))]
    if agg == "imtlg":
        # non-singular Gramians: pinv is the inverse, answered in closed form by the stub (rank-deficient Gramians: see the 'total' cases)
        G = free_gram(m, nonzero_rows=True)
        assume(torch.linalg._det(G) > 0)
    elif agg in SPECTRAL:
        G, hint, sig = spectral_gram(m)
        hint2 = dict(Q=hint["Q"], sigma=[t * s for s in sig])
        torch.KERNELS["eigbasis"] = [hint, hint2]
        if agg == "cagrad":
            sp.sqrt_candidates = [sig[k] / sig[0] for k in range(m)] if bool(sig[0] > 0) else []
        if agg in ("upgrad", "dualproj", "cagrad"):
            assume(sig[0] >= named("norm_eps"))
            assume(t * sig[0] >= named("norm_eps"))
    else:
        G = free_gram(m)
    G2 = [[t * t * G[i][j] for j in range(m)] for i in range(m)]
    A = make(agg, m)
    torch.manual_seed(0)
    try:
        w = A(gram_only(G))._w._flat()
    except torch.GramOnlyRead as e:
        # the aggregator looked at J otherwise than through its Gramian (C08's subject): the Gram-level run cannot go on.  Whether homogeneity still
        # holds is left to the real stack, on a generic matrix: A(tJ) against t A(J) (nothing is reported unless it fails there)
        gen = [[R(2), R(1)], [R(1), R(3)]] if m == 2 else [[R(2)]] if m == 1 else [[R(2), R(1), R(0)], [R(1), R(3), R(1)], [R(0), R(1), R(4)]]
        return [Ob(f"positively_homogeneous[{agg}]", False, lambda model=None, e=e: dict(kind="homogeneity", agg=agg, params=params_cex(model, agg, m) if model is not None else {}, G=[[str(x.frac()) for x in r] for r in gen], t="3", note=f"Gram-only run stopped: {e}"))]
    _second_run_candidates(list(torch.EVENTS), lambda v: list(v))
    torch.manual_seed(0)
    w2 = A(gram_only(G2))._w._flat()
    def cex(model):
        return dict(kind="homogeneity", agg=agg, params=params_cex(model, agg, m), **cex_values(model, G=G, t=t, w=w, w_scaled_run=w2))
    if any(isinstance(x, Sp) for x in w + w2):
        return [Ob(f"finite_result[{agg}]", False, cex)]
    delta = [a - b for a, b in zip(w2, w)]
    q = rsum(delta[i] * delta[j] * G[i][j] for i in range(m) for j in range(m))
    return [Ob(f"positively_homogeneous[{agg}]", q.eqz(0), cex)]


def case_homog_entry(sp, agg):
    set_kernels()
    if agg == "config":
        m, n = [(1, 1), (1, 2), (1, 3), (2, 1)][choice(4, "shape")]  # one row: 2x2 is undecided by z3 within 20 min (nested sqrt of quartics) and is not claimed
    else:
        m, n = [(2, 1), (2, 2), (3, 1)][choice(3, "shape")]
    t = named("t")
    assume(t > 0)
    Jt, J = entry_matrix(m, n)
    assume_params(agg, m)
    J2 = [[t * x for x in r] for r in J]
    torch.manual_seed(0)
    A = make(agg, m)
    out = A(Jt)._flat()
    torch.manual_seed(0)
    out2 = A(T(J2))._flat()
    def cex(model):
        return dict(kind="homogeneity_entry", agg=agg, params=params_cex(model, agg, m), **cex_values(model, J=J, t=t, U=[R(z3.Real(f"U_seed0_{k + 1}")) for k in range(n)]))
    if any(isinstance(x, Sp) for x in out + out2):
        return [Ob(f"finite_result[{agg}]", False, cex)]
    return [Ob(f"positively_homogeneous[{agg}]", eq_all(out2, [t * x for x in out]), cex)]


class _FP:
    """entries of a tensor attribute, compared BY VALUE (a write of the value that was already there is not observable); see _fp_same"""

    def __init__(self, vals):
        self.vals = vals


def _fp_same(a, b):
    """z3 formula: the two fingerprints describe the same observable state"""
    if isinstance(a, dict) and isinstance(b, dict):
        if sorted(a) != sorted(b):
            return z3.BoolVal(False)
        return z3.And(*[_fp_same(a[k], b[k]) for k in sorted(a)]) if a else z3.BoolVal(True)
    if isinstance(a, tuple) and isinstance(b, tuple):
        if len(a) != len(b):
            return z3.BoolVal(False)
        return z3.And(*[_fp_same(x, y) for x, y in zip(a, b)]) if a else z3.BoolVal(True)
    if isinstance(a, _FP) and isinstance(b, _FP):
        if len(a.vals) != len(b.vals):
            return z3.BoolVal(False)
        parts = []
        for x, y in zip(a.vals, b.vals):
            if x is y:
                continue
            if isinstance(x, Sp) or isinstance(y, Sp):
                parts.append(z3.BoolVal(isinstance(x, Sp) and isinstance(y, Sp) and x.k == y.k))
            elif isinstance(x, (R, int, float, Fraction)) and isinstance(y, (R, int, float, Fraction)):
                parts.append(lift(x).eqz(y))
            else:
                parts.append(z3.BoolVal(x is y or (type(x) is type(y) and not isinstance(x, (R, B)) and x == y)))
        return z3.And(*parts) if parts else z3.BoolVal(True)
    return z3.BoolVal(a == b)


def _fingerprint(obj, depth=0):
    """observable state of an aggregator object: attribute names -> identity of tensors / value of scalars, recursively through sub-modules"""
    out = {}
    for k, v in sorted(vars(obj).items()):
        if isinstance(v, torch.nn.Module) and depth < 3:
            out[k] = _fingerprint(v, depth + 1)
        elif isinstance(v, torch.Tensor):
            out[k] = ("tensor", id(v), tuple(v.shape), str(v.dtype), _FP(list(v._flat())))
        elif isinstance(v, (R, B)):
            out[k] = ("sym", id(v))
        elif isinstance(v, (int, float, str, bool, type(None))):
            out[k] = ("val", v)
        else:
            out[k] = ("obj", id(v), repr(type(v)))
    return out


def _stateless_by_fingerprint(sp, agg):
    """CAGrad / Aligned-MTL (self-composition of two kernel-heavy runs is out of the solver's reach): the aggregator object carries no state that a call
    modifies - attribute-by-attribute fingerprint identical before and after a call on an arbitrary matrix; with deterministic kernels this implies independence of history"""
    m = 2
    G, hint, sig = spectral_gram(m)
    set_kernels(eigbasis=hint)
    if agg == "cagrad":
        sp.sqrt_candidates = [sig[k] / sig[0] for k in range(m)] if bool(sig[0] > 0) else []
    assume_params(agg, m)
    A = make(agg, m)
    before = _fingerprint(A)
    J = gram_only(G)
    other_dtype = choice(2, "earlier_call_in_other_dtype") == 1
    if other_dtype:
        J.dtype = torch.float64
    A(J)
    after = _fingerprint(A)
    obs = [Ob(f"call_leaves_aggregator_state_unchanged[{agg}]", _fp_same(before, after), lambda model: dict(kind="stateless", agg=agg, other_dtype=other_dtype, params=params_cex(model, agg, m)))]
    if other_dtype:
        try:
            out = A(gram_only(G))
            obs.append(Ob(f"later_call_in_other_dtype_unaffected[{agg}]", out.dtype is torch.float32 and out._w.dtype is torch.float32,
                          lambda model: dict(kind="stateless", agg=agg, other_dtype=True, params=params_cex(model, agg, m))))
        except (RuntimeError, TypeError) as e:
            obs.append(Ob(f"no_exception_after_earlier_call[{agg}]", False, lambda model, e=e: dict(kind="stateless", agg=agg, other_dtype=True, params=params_cex(model, agg, m), why=str(e))))
    return obs


def case_stateless(sp, agg):
    set_kernels(sort_mode="axiom")
    if agg in ("cagrad", "alignedmtl"):
        return _stateless_by_fingerprint(sp, agg)
    m = 3 if agg == "krum" else 2
    if agg == "krum":
        d1, d2 = _free_dist(m), [[named(f"e{min(i, j)}{max(i, j)}") if i != j else R(0) for j in range(m)] for i in range(m)]
        for i in range(m):
            for j in range(i + 1, m):
                assume(d2[i][j] >= 0)
        mk = lambda d: torch.GramOnly(None, m, dist=d)
        J1, J2, J2b = mk(d1), mk(d2), mk(d2)
        G2 = None
    elif agg == "imtlg":
        G1, G2 = [[R(2), R(1)], [R(1), R(3)]], free_gram(m, "h")
        _install_pinv_kernel(sp, [])
        J1, J2, J2b = gram_only(G1), gram_only(G2), gram_only(G2)
    elif agg in SPECTRAL:
        # the earlier call is made on a concrete matrix (Gramian diag(4, 1)), the compared calls on the symbolic one
        G1 = [[R(4), R(0)], [R(0), R(1)]]
        G2, h2, s2 = spectral_gram(m, "h")
        torch.KERNELS["eigbasis"] = [dict(Q=[[R(1), R(0)], [R(0), R(1)]], sigma=[R(2), R(1)]), h2]
        if agg == "cagrad":
            sp.sqrt_candidates = [s2[k] / s2[0] for k in range(m)] if bool(s2[0] > 0) else []
        J1, J2, J2b = gram_only(G1), gram_only(G2), gram_only(G2)
    else:
        G1, G2 = free_gram(m, "g"), free_gram(m, "h")
        J1, J2, J2b = gram_only(G1), gram_only(G2), gram_only(G2)
    assume_params(agg, m)
    # the earlier call may also have been made in the OTHER floating dtype (same aggregator instance, configured vectors converted by the user)
    other_dtype = choice(2, "earlier_call_in_other_dtype") == 1 and agg not in ("constant", "dualproj")
    if other_dtype:
        J1.dtype = torch.float64
    A = make(agg, m)
    torch.manual_seed(1)
    try:
        A(J1)
    except (RuntimeError, TypeError) as e:
        return [Ob(f"no_exception[{agg}]", False, lambda model, e=e: dict(kind="stateless", agg=agg, other_dtype=other_dtype, params=params_cex(model, agg, m), why=str(e)))]
    torch.manual_seed(2)
    try:
        wa = A(J2)._w._flat()
    except (RuntimeError, TypeError) as e:
        return [Ob(f"no_exception_after_earlier_call[{agg}]", False, lambda model, e=e: dict(kind="stateless", agg=agg, other_dtype=other_dtype, params=params_cex(model, agg, m), why=str(e)))]
    _second_run_candidates([e for e in torch.EVENTS], lambda v: list(v))
    Bagg = make(agg, m)
    torch.manual_seed(2)
    wb = Bagg(J2b)._w._flat()
    def cex(model):
        return dict(kind="stateless", agg=agg, other_dtype=other_dtype, params=params_cex(model, agg, m))
    if any(isinstance(x, Sp) for x in wa + wb):
        return [Ob(f"finite_result[{agg}]", False, cex)]
    if G2 is None:
        return [Ob(f"result_independent_of_earlier_calls[{agg}]", eq_all(wa, wb), cex)]
    delta = [a - b for a, b in zip(wa, wb)]
    q = rsum(delta[i] * delta[j] * G2[i][j] for i in range(m) for j in range(m))
    return [Ob(f"result_independent_of_earlier_calls[{agg}]", q.eqz(0), cex)]


def case_vectors_untouched(sp, agg):
    """aggregators configured with a vector (preference / weights / leak): a call modifies neither the aggregator's attributes nor the tensor the USER
    passed at construction (same storage, no write, same entries), whatever the matrix - in particular with an exactly-zero row.  Entry-level runs
    on concrete rows with rational norms (3,4), (5,12), (-8,6) / a zero row by choice; the configured vector is symbolic."""
    set_kernels()
    rows = [[R(3), R(4)], [R(5), R(12)], [R(-8), R(6)], [R(0), R(0)]]
    m = 2
    J = [rows[choice(4, "row0")], rows[choice(4, "row1")]]
    v = [named(f"cfg{i}") for i in range(m)]
    if agg in ("upgrad", "dualproj", "graddrop"):
        for x in v:
            assume(x >= 0)
    if agg == "graddrop":
        for x in v:
            assume(x <= 1)
    vt = T(v)
    snap = list(vt._flat())
    if agg == "config":
        A = ConFIG(pref_vector=vt)
    elif agg == "upgrad":
        A = UPGrad(pref_vector=vt)
    elif agg == "dualproj":
        A = DualProj(pref_vector=vt)
    elif agg == "alignedmtl":
        A = AlignedMTL(pref_vector=vt)
    elif agg == "constant":
        A = Constant(vt)
    elif agg == "graddrop":
        A = GradDrop(leak=vt)
    else:
        raise KeyError(agg)
    before = _fingerprint(A)
    def cex(model):
        return dict(kind="vectors_untouched", agg=agg, **cex_values(model, J=J, v=v))
    torch.manual_seed(0)
    try:
        A(T(J))
    except (ValueError, RuntimeError, TypeError) as e:
        return [Ob(f"call_succeeds[{agg}]", False, lambda model, e=e: dict(cex(model), why=str(e)))]
    after = _fingerprint(A)
    now = list(vt._flat())
    return [Ob(f"call_leaves_aggregator_state_unchanged[{agg}]", _fp_same(before, after), cex),
            Ob(f"call_leaves_the_configured_vector_untouched[{agg}]", _fp_same(_FP(snap), _FP(now)), cex)]


def case_seeded(sp, agg):
    set_kernels()
    m = 2
    assume_params(agg, m)
    if agg == "graddrop":
        Jt, J = entry_matrix(m, 2)
        A = make(agg, m)
        torch.manual_seed(7)
        o1 = A(Jt)._flat()
        torch.manual_seed(7)
        o2 = A(Jt)._flat()
    else:
        G = free_gram(m)
        A = make(agg, m)
        torch.manual_seed(7)
        o1 = A(gram_only(G))._w._flat()
        torch.manual_seed(7)
        o2 = A(gram_only(G))._w._flat()
    return [Ob(f"equal_seeds_equal_results[{agg}]", eq_all(o1, o2), lambda model: dict(kind="seeded", agg=agg))]
