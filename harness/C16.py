"""C16 - Byzantine-robust aggregators ignore a bounded number of arbitrary rows (TrimmedMean, Krum)."""
from harness.common import *
from torchjd.aggregation import TrimmedMean, Krum

ASSUMPTIONS = [
    "TrimmedMean: entry-level J (free reals); torch.sort is modelled as a sorting network on values (if-then-else terms), so ALL orderings incl. ties are covered on one path",
    "Krum: distance-only domain - pairwise distances d_ij = d_ji >= 0, d_ii = 0 are FREE reals (a superset of all Euclidean distance matrices, hence sound for a universally quantified property); "
    "score ties are excluded for the 'k smallest scores' clause (the property says 'those with the smallest...'; with ties the set is not unique)",
    "'corruption values up to 1e12 x honest scale' is subsumed by 'any real value'",
]


def bounds(tier):
    return dict(trimmed_mean=dict(m=[1, 2, 3, 4, 5], b=[0, 1, 2], n=[1, 2]), krum=_krum_params(tier))


def _krum_params(tier):
    ps = [(3, 0, 1), (3, 0, 2), (3, 0, 3), (4, 1, 1), (4, 1, 2), (4, 0, 1), (4, 0, 2)]
    if tier == "thorough":
        ps += [(4, 1, 3), (4, 1, 4), (4, 0, 4), (5, 1, 1), (5, 2, 1), (5, 2, 2), (5, 0, 1), (5, 1, 2)]
    return ps


def cases(tier):
    cs = []
    for m in (1, 2, 3, 4, 5):
        for b in (0, 1, 2):
            if m >= 2 * b + 1:
                cs.append(dict(name=f"tm_m{m}_b{b}_n1", fn="tm", args=dict(m=m, b=b, n=1), weight=m))
    cs.append(dict(name="tm_m3_b1_n2", fn="tm", args=dict(m=3, b=1, n=2), weight=3))
    cs.append(dict(name="tm_m4_b1_n2", fn="tm", args=dict(m=4, b=1, n=2), weight=4))
    for m in (0, 1, 2, 3, 4):
        for b in (0, 1, 2, 3):
            if m < 2 * b + 1:
                cs.append(dict(name=f"tm_reject_m{m}_b{b}", fn="tm_reject", args=dict(m=m, b=b)))
    cs.append(dict(name="tm_negative_trim", fn="tm_ctor", args={}))
    for (m, f, k) in _krum_params(tier):
        cs.append(dict(name=f"krum_m{m}_f{f}_k{k}", fn="krum", args=dict(m=m, f=f, k=k), weight=m * m))
    for (m, f, k) in [(2, 0, 1), (3, 1, 1), (4, 2, 1), (3, 0, 4), (1, 0, 1), (0, 0, 1)]:
        cs.append(dict(name=f"krum_reject_m{m}_f{f}_k{k}", fn="krum_reject", args=dict(m=m, f=f, k=k)))
    cs.append(dict(name="krum_ctor", fn="krum_ctor", args={}))
    return cs


def _partitions(m, b):
    idx = list(range(m))
    for L in itertools.combinations(idx, b):
        rest = [i for i in idx if i not in L]
        for H in itertools.combinations(rest, b):
            K = [i for i in rest if i not in H]
            yield L, K, H


def case_tm(sp, m, b, n):
    set_kernels()
    Jt, J = entry_matrix(m, n)
    before = [list(r) for r in J]
    out = TrimmedMean(b)(Jt)
    o = out._flat()
    obs = []
    def cex(model):
        return dict(kind="trimmed_mean", b=b, **cex_values(model, J=J, out_model=o))
    if tuple(out.shape) != (n,):
        return [Ob("tm_shape", False, cex)]
    for j in range(n):
        col = [J[i][j] for i in range(m)]
        alts = []
        for L, K, H in _partitions(m, b):
            conds = [(col[l] <= col[k]).z() for l in L for k in K] + [(col[k] <= col[h]).z() for k in K for h in H] + \
                    [(col[l] <= col[h]).z() for l in L for h in H]
            alts.append(z3.And(*conds, o[j].eqz(rsum(col[k] for k in K) / len(K))))
        obs.append(Ob("tm_is_mean_of_middle_order_statistics", z3.Or(*alts), cex))
        # robustness: whichever <= b rows are corrupted, the output stays within [min, max] of the others
        for bad in itertools.combinations(range(m), b):
            honest = [col[i] for i in range(m) if i not in bad]
            obs.append(Ob("tm_within_honest_range", z3.And(z3.Or(*[(o[j] >= h).z() for h in honest]), z3.Or(*[(o[j] <= h).z() for h in honest])), cex))
    obs.append(Ob("tm_input_unchanged", eq_all(Jt._flat(), [x for r in before for x in r]), cex))
    return obs


def case_tm_reject(sp, m, b):
    set_kernels()
    n = 2
    Jt, J = entry_matrix(m, n)
    try:
        TrimmedMean(b)(Jt)
    except ValueError:
        return [Ob("tm_rejects_too_few_rows", True)]
    return [Ob("tm_rejects_too_few_rows", False, lambda model: dict(kind="tm_reject", m=m, n=n, b=b))]


def case_tm_ctor(sp):
    try:
        TrimmedMean(-1)
    except ValueError:
        return [Ob("tm_rejects_negative_trim", True)]
    return [Ob("tm_rejects_negative_trim", False, lambda model: dict(kind="tm_ctor"))]


def _free_dist(m):
    d = [[R(0)] * m for _ in range(m)]
    for i in range(m):
        for j in range(i + 1, m):
            v = named(f"d{i}{j}")
            assume(v >= 0)
            d[i][j] = d[j][i] = v
    return d


def case_krum(sp, m, f, k):
    set_kernels()
    d = _free_dist(m)
    J = torch.GramOnly(None, m, dist=d)
    out = Krum(n_byzantine=f, n_selected=k)(J)
    w = out._w._flat()
    nn = m - f - 2
    # reference scores, sorting free: sum of the nn smallest non-self distances == min over nn-subsets of the sum
    scores = []
    for i in range(m):
        others = [d[i][j] for j in range(m) if j != i]
        s = fresh(f"score{i}")
        subs = [rsum(c) for c in itertools.combinations(others, nn)]
        assume(z3.And(*[(s <= x).z() for x in subs]))
        assume(z3.Or(*[s.eqz(x) for x in subs]))
        scores.append(s)
    mm = any(e[0] == "kernel" and e[1] == "cdist" and e[2] == "mm_if_necessary" for e in torch.EVENTS)
    def cex(model):
        return dict(kind="krum", f=f, k=k, cdist_mm=mm, **cex_values(model, dist=d, weights_model=w, scores=scores))
    sel = [x.eqz(R(Fraction(1, k))) for x in w]
    unsel = [x.eqz(0) for x in w]
    obs = [Ob("krum_weights_are_one_over_k_on_k_rows",
              z3.And(*[z3.Or(a, b) for a, b in zip(sel, unsel)], rsum(w).eqz(1)), cex)]
    # the selected ones have the smallest scores (ties between a selected and an unselected score excluded)
    obs.append(Ob("krum_selects_smallest_scores",
                  z3.And(*[z3.Implies(z3.And(sel[i], unsel[j]), (scores[i] <= scores[j]).z()) for i in range(m) for j in range(m) if i != j]), cex))
    return obs


def case_krum_reject(sp, m, f, k):
    set_kernels()
    d = _free_dist(m)
    J = torch.GramOnly(None, 2, dist=d)
    try:
        Krum(n_byzantine=f, n_selected=k)(J)
    except ValueError:
        return [Ob("krum_rejects_too_few_rows", True)]
    return [Ob("krum_rejects_too_few_rows", False, lambda model: dict(kind="krum_reject", m=m, f=f, k=k))]


def case_krum_ctor(sp):
    obs = []
    for kw in (dict(n_byzantine=-1, n_selected=1), dict(n_byzantine=0, n_selected=0)):
        try:
            Krum(**kw)
            obs.append(Ob("krum_ctor_rejects", False, lambda model, kw=kw: dict(kind="krum_ctor", **kw)))
        except ValueError:
            obs.append(Ob("krum_ctor_rejects", True))
    return obs
