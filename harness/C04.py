"""C04 - non-conflicting aggregators never oppose any objective (up to the stated allowance)."""
from harness.common import *
from torchjd.aggregation import UPGrad, DualProj, MGDA, CAGrad

ASSUMPTIONS = [
    "exact-arithmetic form of the property: the 'numerical allowance' is the exact algebraic slack: (G w)_i >= -reg_eps s^2 w_i for UPGrad/DualProj; "
    "(G a)_i >= -s sqrt(a^T G a - min-norm^2) for MGDA; (G w)_i >= 0 for CAGrad with c >= 1 (the conic solver's tolerance is a float notion, outside)",
    "UPGrad/DualProj: solve_qp is the KKT contract stub; CAGrad: cvxpy is the first-order-optimality contract stub; svd kernels answered from the eigenbasis of the spectral domain",
    "MGDA: the min-norm point of the hull is an existential witness b (simplex point satisfying the variational inequality (G b)_k >= b^T G b); "
    "the O(1/k) sub-optimality rate 8 s^2/(max_iters+2) is checked for max_iters <= 2 at m = 2 only; the general rate is a convergence theorem, outside this technique",
    "MGDA at m = 3 (max_iters = 1 on the free Gramian domain, max_iters <= 2 on one-parameter families: an integer 3-row matrix with one row multiplied by a symbolic t > 0): "
    "the code-dependent half of the clause is decided - the returned weights lie in the simplex; that every simplex point satisfies the clause is mathematics "
    "(<g_i,p> >= |p|^2 >= 0 at the min-norm point p, |A-p|^2 <= |A|^2-|p|^2, Cauchy-Schwarz - the latter discharged by the solver, the assembly is by hand: z3 leaves it undecided). "
    "On the families the clause AS STATED is also given to the solver as a search-only obligation (a model is a violation; unsat/unknown conclude nothing)",
    "the exhaustive {-1,0,1} matrices up to 3x3 of the quantifier are points of the symbolic Gramian domain for m <= 2 (m = 3 for UPGrad/DualProj is out of the solver's reach and follows only by composition with C03)",
]


def bounds(tier):
    return dict(upgrad_dualproj_m=[1, 2], mgda=dict(m=2, max_iters=[1, 2]), mgda_m3=dict(simplex_membership="free Gramians, max_iters=1; scaled-row families, max_iters<=2", families=(len(BASE_ROWS_M3) + (60 if tier == "thorough" else 0)) * 3),
                cagrad=dict(m=2, c="symbolic >= 1"), s_ge_norm_eps=True)


def cases(tier):
    cs = []
    for agg in ("upgrad", "dualproj"):
        for m in [1, 2]:  # m = 3: z3 returns unknown on the degree-8 substitution even at 40 s (measured); covered structurally by C03 (wiring + KKT lemma mu = P v >= 0)
            for pref in (0, 1):
                cs.append(dict(name=f"{agg}_m{m}_pref{pref}", fn="dualcone", args=dict(agg=agg, m=m, pref=pref), weight=m ** 3, timeout_ms=40000, **({"budget_s": 1200} if m == 3 else {})))
    for it in (1, 2):
        cs.append(dict(name=f"mgda_m2_it{it}", fn="mgda", args=dict(m=2, iters=it), weight=4 * it))
        cs.append(dict(name=f"mgda_rate_m2_it{it}", fn="mgda_rate", args=dict(m=2, iters=it), weight=6 * it))
    cs.append(dict(name="mgda_simplex_m3_it1", fn="mgda_rowbound", args=dict(m=3, iters=1), weight=12))
    for it in (1, 2):
        cs.append(dict(name=f"mgda_scaled_family_m3_it{it}", fn="mgda_scaled_family", args=dict(iters=it), weight=6))
        cs.append(dict(name=f"mgda_scaled_family_search_m3_it{it}", fn="mgda_scaled_family", args=dict(iters=it, hunt=True), weight=6, timeout_ms=4000, budget_s=90, hunt_only=True))
    if tier == "thorough":
        for g in range(6):
            for it in (1, 2):
                cs.append(dict(name=f"mgda_scaled_family_more{g}_m3_it{it}", fn="mgda_scaled_family", args=dict(iters=it, group=g), weight=8))
                cs.append(dict(name=f"mgda_scaled_family_more{g}_search_m3_it{it}", fn="mgda_scaled_family", args=dict(iters=it, hunt=True, group=g), weight=8, timeout_ms=4000, budget_s=200, hunt_only=True))
    cs.append(dict(name="cauchy_schwarz_lemma_m3", fn="cauchy_schwarz_lemma", args=dict(m=3), weight=3))
    cs.append(dict(name="cagrad_m2", fn="cagrad", args=dict(m=2), weight=9))
    return cs


def case_dualcone(sp, agg, m, pref):
    G, hint, sig = spectral_gram(m)
    set_kernels(eigbasis=hint)
    eps, reg = named("norm_eps"), named("reg_eps")
    assume(eps > 0)
    assume(reg > 0)
    assume(sig[0] >= eps)
    u = [named(f"u{i}") for i in range(m)]
    for x in u:
        assume(x >= 0)
    cls = UPGrad if agg == "upgrad" else DualProj
    out = cls(pref_vector=T(u) if pref else None, norm_eps=eps, reg_eps=reg)(gram_only(G))
    w = out._w._flat()
    s2 = sig[0] * sig[0]
    def cex(model):
        return dict(kind="non_conflict", agg=agg, pref=bool(pref), **cex_values(model, G=G, u=u if pref else None, norm_eps=eps, reg_eps=reg, weights_model=w))
    Gw = [rsum(G[i][j] * w[j] for j in range(m)) for i in range(m)]
    return [Ob("J_A(J)_ge_minus_reg_eps_s2_w", z3.And(*[(Gw[i] >= -(reg * s2 * w[i])).z() for i in range(m)]), cex)]


def _minnorm_witness(G, m, name="b"):
    b = [named(f"{name}{i}") for i in range(m)]
    for x in b:
        assume(x >= 0)
    assume(rsum(b).eqz(1))
    Gb = [rsum(G[k][j] * b[j] for j in range(m)) for k in range(m)]
    qb = rsum(b[i] * Gb[i] for i in range(m))
    for k in range(m):
        assume(Gb[k] >= qb)
    return b, qb


def _free_gram_with_s2(m):
    """free PSD Gramian (m = 2) + its largest eigenvalue s^2 characterised by the characteristic polynomial: low-degree terms keep z3 decisive
    even for variants of the code whose arithmetic is not scale-free"""
    assert m == 2
    G = free_gram(m)
    s2 = named("s2")
    tr, det = G[0][0] + G[1][1], G[0][0] * G[1][1] - G[0][1] * G[0][1]
    assume((s2 * s2 - tr * s2 + det).eqz(0))
    assume(2 * s2 >= tr)
    return G, s2


def case_mgda(sp, m, iters):
    set_kernels()
    G, s2 = _free_gram_with_s2(m)
    e = named("epsilon")
    assume(e >= 0)
    out = MGDA(epsilon=e, max_iters=iters)(gram_only(G))
    a = out._w._flat()
    b, qb = _minnorm_witness(G, m)
    Ga = [rsum(G[i][j] * a[j] for j in range(m)) for i in range(m)]
    qa = rsum(a[i] * Ga[i] for i in range(m))
    def cex(model):
        return dict(kind="non_conflict", agg="mgda", iters=iters, **cex_values(model, G=G, epsilon=e, weights_model=a))
    # (G a)_i >= -s sqrt(qa - qb)   <=>   (G a)_i >= 0  or  (G a)_i^2 <= s^2 (qa - qb)
    obs = [Ob("mgda_suboptimality_nonnegative", (qa >= qb).z(), cex)]
    for i in range(m):
        obs.append(Ob("J_A(J)_ge_minus_s_sqrt_suboptimality", z3.Or((Ga[i] >= 0).z(), (Ga[i] * Ga[i] <= s2 * (qa - qb)).z()), cex))
    return obs


def case_mgda_rowbound(sp, m, iters, hunt=False):
    """MGDA's clause at m = 3, where the direct statement (largest singular value + min-norm witness + Frank-Wolfe steps) leaves z3 undecided.
    Decomposed into (A) what depends on the code: the returned weights lie in the simplex - decided here on the free Gramian domain; and
    (B) mathematics: for EVERY a in the simplex, (G a)_i >= -|g_i| sqrt(qa - qb) with |g_i|^2 = G_ii <= s^2, which implies the stated clause
    (cases mgda_hull_lemma / cauchy_schwarz_lemma).  In addition the stated clause itself is given to the solver as a SEARCH-ONLY obligation
    (s^2 over-approximated by trace(G), so that any model is a violation of the clause as stated): it finds witnesses on broken code."""
    set_kernels()
    G = free_gram(m)
    e = named("epsilon")
    assume(e >= 0)
    out = MGDA(epsilon=e, max_iters=iters)(gram_only(G))
    a = out._w._flat()
    Ga = [rsum(G[i][j] * a[j] for j in range(m)) for i in range(m)]
    qa = rsum(a[i] * Ga[i] for i in range(m))
    def cex(model):
        return dict(kind="non_conflict", agg="mgda", iters=iters, **cex_values(model, G=G, epsilon=e, weights_model=a))
    if not hunt:
        return [Ob("mgda_weights_in_simplex", z3.And(rsum(a).eqz(1), *[(x >= 0).z() for x in a]), cex)]
    # search-only: a model is a violation of the clause AS STATED.  min-norm^2 >= L_k := 2 min_j G_jk - G_kk for every vertex e_k (a^T G a >=
    # 2 a^T G e_k - G_kk on the simplex) and s^2 <= trace(G), hence allowance^2 <= trace(G) (qa - L_k): no witness variables are needed.
    tr = rsum(G[i][i] for i in range(m))
    bad = []
    for k in range(m):
        for jmin in range(m):
            Lk = 2 * G[jmin][k] - G[k][k]
            is_min = z3.And(*[(G[jmin][k] <= G[j][k]).z() for j in range(m) if j != jmin])
            for i in range(m):
                bad.append(z3.And(is_min, (Ga[i] < 0).z(), z3.Or((qa < Lk).z(), (Ga[i] * Ga[i] > tr * (qa - Lk)).z())))
    return [Ob("J_A(J)_ge_minus_s_sqrt_suboptimality", z3.Not(z3.Or(*bad)), cex, hunt=True)]


BASE_ROWS_M3 = [[[1, 0], [1, 1], [1, -1]], [[1, 1], [2, 1], [2, -1]], [[1, 0, 0], [1, 1, 0], [1, 1, 1]], [[1, 1, 0], [-1, 1, 0], [0, 1, 1]], [[2, 1], [1, 2], [1, -1]]]


def _more_bases(k=60):
    """thorough tier: k further integer 3-row matrices (entries in -2..2, 2 or 3 columns, no zero row), fixed pseudo-random list"""
    import random
    rng = random.Random(20240928)
    out = []
    while len(out) < k:
        n = rng.choice([2, 3])
        M = [[rng.randint(-2, 2) for _ in range(n)] for _ in range(3)]
        if all(any(r) for r in M) and M not in out:
            out.append(M)
    return out


def case_mgda_scaled_family(sp, iters, hunt=False, group=None):
    """badly scaled inputs at m = 3 on one-parameter families: a concrete integer matrix with ONE row multiplied by a symbolic t > 0 (all positions,
    a few base matrices).  Queries are univariate, which nlsat decides at once - also the satisfiable ones, so this is where witnesses are found
    when the code is broken.  Obligations: weights in the simplex; search-only: the clause as stated (see case_mgda_rowbound)."""
    set_kernels()
    m = 3
    bases = BASE_ROWS_M3 if group is None else _more_bases()[group * 10:(group + 1) * 10]
    J0 = bases[choice(len(bases), "base_matrix")]
    r = choice(m, "scaled_row")
    t = named("t")
    assume(t > 0)
    J = [[(t * x if i == r else R(x)) for x in row] for i, row in enumerate(J0)]
    G = [[rsum(J[i][k] * J[j][k] for k in range(len(J0[0]))) for j in range(m)] for i in range(m)]
    e = named("epsilon")
    assume(e >= 0)
    out = MGDA(epsilon=e, max_iters=iters)(gram_only(G))
    a = out._w._flat()
    Ga = [rsum(G[i][j] * a[j] for j in range(m)) for i in range(m)]
    qa = rsum(a[i] * Ga[i] for i in range(m))
    def cex(model):
        return dict(kind="non_conflict", agg="mgda", iters=iters, **cex_values(model, G=G, epsilon=e, weights_model=a))
    if not hunt:
        return [Ob("mgda_weights_in_simplex", z3.And(rsum(a).eqz(1), *[(x >= 0).z() for x in a]), cex)]
    tr = rsum(G[i][i] for i in range(m))
    bad = []
    for k in range(m):
        for jmin in range(m):
            Lk = 2 * G[jmin][k] - G[k][k]
            is_min = z3.And(*[(G[jmin][k] <= G[j][k]).z() for j in range(m) if j != jmin])
            for i in range(m):
                bad.append(z3.And(is_min, (Ga[i] < 0).z(), z3.Or((qa < Lk).z(), (Ga[i] * Ga[i] > tr * (qa - Lk)).z())))
    return [Ob("J_A(J)_ge_minus_s_sqrt_suboptimality", z3.Not(z3.Or(*bad)), cex, hunt=True)]


def case_mgda_hull_lemma(sp, m):
    """NOT REGISTERED (z3 leaves it undecided at m = 3 within 60 s; it is code-independent mathematics, proved by hand in case_mgda_rowbound's docstring).
    (B): for every PSD G, every a in the simplex and the min-norm witness b (variational inequality): (G a)_i >= 0 or (G a)_i^2 <= G_ii (qa - qb).
    Cauchy-Schwarz in Gram form is given as a lemma instance at d = a - b (discharged on its own in case cauchy_schwarz_lemma)."""
    G = free_gram(m)
    a = [named(f"a{i}") for i in range(m)]
    for x in a:
        assume(x >= 0)
    assume(rsum(a).eqz(1))
    b, qb = _minnorm_witness(G, m)
    Ga = [rsum(G[i][j] * a[j] for j in range(m)) for i in range(m)]
    qa = rsum(a[i] * Ga[i] for i in range(m))
    d = [a[j] - b[j] for j in range(m)]
    Gd = [rsum(G[i][j] * d[j] for j in range(m)) for i in range(m)]
    dGd = rsum(d[i] * Gd[i] for i in range(m))
    for i in range(m):
        assume(Gd[i] * Gd[i] <= G[i][i] * dGd)
    return [Ob("hull_point_row_bound", z3.Or((Ga[i] >= 0).z(), (Ga[i] * Ga[i] <= G[i][i] * (qa - qb)).z()), None) for i in range(m)]


def case_cauchy_schwarz_lemma(sp, m):
    """(e_i^T G d)^2 <= G_ii d^T G d for every PSD G (principal minors >= 0) and every vector d"""
    G = free_gram(m)
    d = [named(f"d{j}") for j in range(m)]
    Gd = [rsum(G[i][j] * d[j] for j in range(m)) for i in range(m)]
    dGd = rsum(d[i] * Gd[i] for i in range(m))
    return [Ob("cauchy_schwarz_gram_form", (Gd[i] * Gd[i] <= G[i][i] * dGd).z(), None) for i in range(m)]


def case_mgda_rate(sp, m, iters):
    set_kernels()
    G, s2 = _free_gram_with_s2(m)
    out = MGDA(epsilon=R(0), max_iters=iters)(gram_only(G))
    a = out._w._flat()
    b, qb = _minnorm_witness(G, m)
    qa = rsum(a[i] * a[j] * G[i][j] for i in range(m) for j in range(m))
    def cex(model):
        return dict(kind="non_conflict", agg="mgda_rate", iters=iters, **cex_values(model, G=G, weights_model=a))
    return [Ob("mgda_suboptimality_at_most_8s2_over_k_plus_2", (qa - qb <= 8 * s2 / (iters + 2)).z(), cex)]


def case_cagrad(sp, m):
    G, hint, sig = spectral_gram(m)
    set_kernels(eigbasis=hint)
    sp.sqrt_candidates = [sig[k] / sig[0] for k in range(m)] if bool(sig[0] > 0) else []
    c, eps = named("c"), named("norm_eps")
    assume(eps > 0)
    assume(c >= 1)
    assume(sig[0] >= eps)
    out = CAGrad(c=c, norm_eps=eps)(gram_only(G))
    w = out._w._flat()
    Gw = [rsum(G[i][j] * w[j] for j in range(m)) for i in range(m)]
    def cex(model):
        return dict(kind="non_conflict", agg="cagrad", **cex_values(model, G=G, c=c, norm_eps=eps, weights_model=w))
    return [Ob("J_A(J)_ge_0_for_c_ge_1", z3.And(*[(x >= 0).z() for x in Gw]), cex)]
