"""C04 - non-conflicting aggregators never oppose any objective (up to the stated allowance)."""
from harness.common import *
from torchjd.aggregation import UPGrad, DualProj, MGDA, CAGrad

ASSUMPTIONS = [
    "exact-arithmetic form of the property: the 'numerical allowance' is the exact algebraic slack: (G w)_i >= -reg_eps s^2 w_i for UPGrad/DualProj; "
    "(G a)_i >= -s sqrt(a^T G a - min-norm^2) for MGDA; (G w)_i >= 0 for CAGrad with c >= 1 (the conic solver's tolerance is a float notion, outside)",
    "UPGrad/DualProj: solve_qp is the KKT contract stub; CAGrad: cvxpy is the first-order-optimality contract stub; svd kernels answered from the eigenbasis of the spectral domain",
    "MGDA: the min-norm point of the hull is an existential witness b (simplex point satisfying the variational inequality (G b)_k >= b^T G b); "
    "the O(1/k) sub-optimality rate 8 s^2/(max_iters+2) is checked for max_iters <= 2 at m = 2 only; the general rate is a convergence theorem, outside this technique",
    "the exhaustive {-1,0,1} matrices up to 3x3 of the quantifier are points of the symbolic Gramian domain for m <= 2 (m = 3 for UPGrad/DualProj is out of the solver's reach and follows only by composition with C03)",
]


def bounds(tier):
    return dict(upgrad_dualproj_m=[1, 2], mgda=dict(m=2, max_iters=[1, 2]), cagrad=dict(m=2, c="symbolic >= 1"), s_ge_norm_eps=True)


def cases(tier):
    cs = []
    for agg in ("upgrad", "dualproj"):
        for m in [1, 2]:  # m = 3: z3 returns unknown on the degree-8 substitution even at 40 s (measured); covered structurally by C03 (wiring + KKT lemma mu = P v >= 0)
            for pref in (0, 1):
                cs.append(dict(name=f"{agg}_m{m}_pref{pref}", fn="dualcone", args=dict(agg=agg, m=m, pref=pref), weight=m ** 3, timeout_ms=40000, **({"budget_s": 1200} if m == 3 else {})))
    for it in (1, 2):
        cs.append(dict(name=f"mgda_m2_it{it}", fn="mgda", args=dict(m=2, iters=it), weight=4 * it))
        cs.append(dict(name=f"mgda_rate_m2_it{it}", fn="mgda_rate", args=dict(m=2, iters=it), weight=6 * it))
    cs.append(dict(name="cagrad_m2", fn="cagrad", args=dict(m=2), weight=9))
    return cs


def case_dualcone(sp, agg, m, pref):
    G, hint, sig = spectral_gram(m)
    set_kernels(eigbasis=hint)
    eps, reg = named("norm_eps"), named("reg_eps")
    assume(eps > 0)
    assume(reg > 0)
    assume(sig[0] >= eps)
    u = [named(f"u{i}") for i in range(m)]
    for x in u:
        assume(x >= 0)
    cls = UPGrad if agg == "upgrad" else DualProj
    out = cls(pref_vector=T(u) if pref else None, norm_eps=eps, reg_eps=reg)(gram_only(G))
    w = out._w._flat()
    s2 = sig[0] * sig[0]
    def cex(model):
        return dict(kind="non_conflict", agg=agg, pref=bool(pref), **cex_values(model, G=G, u=u if pref else None, norm_eps=eps, reg_eps=reg, weights_model=w))
    Gw = [rsum(G[i][j] * w[j] for j in range(m)) for i in range(m)]
    return [Ob("J_A(J)_ge_minus_reg_eps_s2_w", z3.And(*[(Gw[i] >= -(reg * s2 * w[i])).z() for i in range(m)]), cex)]


def _minnorm_witness(G, m, name="b"):
    b = [named(f"{name}{i}") for i in range(m)]
    for x in b:
        assume(x >= 0)
    assume(rsum(b).eqz(1))
    Gb = [rsum(G[k][j] * b[j] for j in range(m)) for k in range(m)]
    qb = rsum(b[i] * Gb[i] for i in range(m))
    for k in range(m):
        assume(Gb[k] >= qb)
    return b, qb


def _free_gram_with_s2(m):
    """free PSD Gramian (m = 2) + its largest eigenvalue s^2 characterised by the characteristic polynomial: low-degree terms keep z3 decisive
    even for variants of the code whose arithmetic is not scale-free"""
    assert m == 2
    G = free_gram(m)
    s2 = named("s2")
    tr, det = G[0][0] + G[1][1], G[0][0] * G[1][1] - G[0][1] * G[0][1]
    assume((s2 * s2 - tr * s2 + det).eqz(0))
    assume(2 * s2 >= tr)
    return G, s2


def case_mgda(sp, m, iters):
    set_kernels()
    G, s2 = _free_gram_with_s2(m)
    e = named("epsilon")
    assume(e >= 0)
    out = MGDA(epsilon=e, max_iters=iters)(gram_only(G))
    a = out._w._flat()
    b, qb = _minnorm_witness(G, m)
    Ga = [rsum(G[i][j] * a[j] for j in range(m)) for i in range(m)]
    qa = rsum(a[i] * Ga[i] for i in range(m))
    def cex(model):
        return dict(kind="non_conflict", agg="mgda", iters=iters, **cex_values(model, G=G, epsilon=e, weights_model=a))
    # (G a)_i >= -s sqrt(qa - qb)   <=>   (G a)_i >= 0  or  (G a)_i^2 <= s^2 (qa - qb)
    obs = [Ob("mgda_suboptimality_nonnegative", (qa >= qb).z(), cex)]
    for i in range(m):
        obs.append(Ob("J_A(J)_ge_minus_s_sqrt_suboptimality", z3.Or((Ga[i] >= 0).z(), (Ga[i] * Ga[i] <= s2 * (qa - qb)).z()), cex))
    return obs


def case_mgda_rate(sp, m, iters):
    set_kernels()
    G, s2 = _free_gram_with_s2(m)
    out = MGDA(epsilon=R(0), max_iters=iters)(gram_only(G))
    a = out._w._flat()
    b, qb = _minnorm_witness(G, m)
    qa = rsum(a[i] * a[j] * G[i][j] for i in range(m) for j in range(m))
    def cex(model):
        return dict(kind="non_conflict", agg="mgda_rate", iters=iters, **cex_values(model, G=G, weights_model=a))
    return [Ob("mgda_suboptimality_at_most_8s2_over_k_plus_2", (qa - qb <= 8 * s2 / (iters + 2)).z(), cex)]


def case_cagrad(sp, m):
    G, hint, sig = spectral_gram(m)
    set_kernels(eigbasis=hint)
    sp.sqrt_candidates = [sig[k] / sig[0] for k in range(m)] if bool(sig[0] > 0) else []
    c, eps = named("c"), named("norm_eps")
    assume(eps > 0)
    assume(c >= 1)
    assume(sig[0] >= eps)
    out = CAGrad(c=c, norm_eps=eps)(gram_only(G))
    w = out._w._flat()
    Gw = [rsum(G[i][j] * w[j] for j in range(m)) for i in range(m)]
    def cex(model):
        return dict(kind="non_conflict", agg="cagrad", **cex_values(model, G=G, c=c, norm_eps=eps, weights_model=w))
    return [Ob("J_A(J)_ge_0_for_c_ge_1", z3.And(*[(x >= 0).z() for x in Gw]), cex)]
