"""C14 - transform pipelines are key-typed: ill-formed ones cannot be built or run."""
from harness.autojac_common import *
from torchjd.autojac._transform import (Composition, Conjunction, Transform, Init, Select, Diagonalize, Stack, Accumulate,
                                        TensorDict, Gradients, Jacobians, GradientVectors, JacobianMatrices, EmptyTensorDict)

ASSUMPTIONS = [
    "inductive formulation: Composition / Conjunction / Stack are run with children that are ARBITRARY contract-satisfying stubs "
    "(any required_keys / output_keys over a universe of 3 keys, any of the five dictionary types): nesting depth is therefore not a bound; "
    "the leaf transforms Init, Select, Diagonalize, Accumulate are shown to satisfy the contract themselves",
    "additionally every term of nesting depth <= 2 (thorough: a sample-free enumeration of depth 3 over the real leaf transforms) is built and run directly",
    "structural property: the exploration is bounded-exhaustive over a finite space (values play no role)",
]
TYPES = [EmptyTensorDict, Gradients, Jacobians, GradientVectors, JacobianMatrices]
SUBSETS = [frozenset(s) for r in range(4) for s in itertools.combinations(range(3), r)]


def bounds(tier):
    return dict(universe="3 keys (shapes (), (2,), (1,2))", stub_children="all (required, output) key-set pairs x dictionary types", terms="depth 2 over 3 keys" + ("; depth 3 over 1 key" if tier == "thorough" else ""),
                tensor_dict_shapes="keys x values over 0-d..3-d shapes")


def cases(tier):
    cs = []
    for i in range(8):
        cs.append(dict(name=f"composition_{i}", fn="composition", args={}, prefix=[i], weight=2))
        cs.append(dict(name=f"conjunction_{i}", fn="conjunction", args={}, prefix=[i], weight=3))
    cs.append(dict(name="conjunction_rows", fn="conjunction_rows", args={}, weight=1))
    for i in range(8):
        cs.append(dict(name=f"assoc_comm_{i}", fn="assoc", args={}, prefix=[i], weight=5))
    cs.append(dict(name="leaf_transforms", fn="leaves", args={}, weight=2))
    for d in range(5):
        cs.append(dict(name=f"tensor_dict_{d}", fn="tdict", args=dict(ti=d), weight=1))
    cs.append(dict(name="terms_depth2_3keys", fn="terms", args=dict(depth=2, nkeys=3), weight=6))
    if tier == "thorough":
        # depth 3 has ~5e8 terms over 3 keys: walked exhaustively over a 1-key universe (88k terms); nesting depth itself is covered by the inductive cases
        cs.append(dict(name="terms_depth3_1key", fn="terms", args=dict(depth=3, nkeys=1), weight=20, max_paths=2000000, budget_s=3000))
    return cs


def _keys():
    ks = [torch.zeros(()), torch.zeros(2), torch.zeros(1, 2)]
    for i, k in enumerate(ks):
        k._h = i
        k.requires_grad = True
    return ks


def _value_for(key, typ, rows=2):
    if typ in (Gradients, EmptyTensorDict, TensorDict):
        return torch.zeros(key.shape)
    if typ is Jacobians:
        return torch.zeros((rows,) + tuple(key.shape))
    if typ is GradientVectors:
        return torch.zeros(key.numel())
    return torch.zeros(rows, key.numel())


class Stub(Transform):
    """an arbitrary transform satisfying the contract: declared required/output keys, declared output type"""

    def __init__(self, keys, req, out, typ, tag=0):
        self.keys, self.req, self.out, self.typ, self.tag = keys, set(req), set(out), typ, tag

    def _compute(self, inp):
        if not self.out:
            return self.typ({}) if self.typ is not EmptyTensorDict else EmptyTensorDict()  # a key-less dictionary may still be typed
        return self.typ({self.keys[i]: _value_for(self.keys[i], self.typ) + self.tag for i in self.out})

    @property
    def required_keys(self):
        return {self.keys[i] for i in self.req}

    @property
    def output_keys(self):
        return {self.keys[i] for i in self.out}


def _mk_input(keys, subset, typ=Gradients):
    if not subset:
        return EmptyTensorDict()
    return typ({keys[i]: _value_for(keys[i], typ) for i in subset})


def _lca(a, b):
    for c in a.mro()[:-1]:
        if issubclass(b, c):
            return c
    return TensorDict


def case_composition(sp):
    keys = _keys()
    r1 = SUBSETS[choice(8, "inner_required")]
    o1 = SUBSETS[choice(8, "inner_output")]
    r2 = SUBSETS[choice(8, "outer_required")]
    o2 = SUBSETS[choice(8, "outer_output")]
    t2 = TYPES[1 + choice(4, "outer_type")] if o2 else EmptyTensorDict
    inner, outer = Stub(keys, r1, o1, Gradients if o1 else EmptyTensorDict), Stub(keys, r2, o2, t2)
    def cex(model=None):
        return dict(kind="typed", which="composition", r1=sorted(r1), o1=sorted(o1), r2=sorted(r2), o2=sorted(o2))
    try:
        comp = outer << inner
        built = True
    except ValueError:
        built = False
    obs = [Ob("composition_built_iff_outer_requires_what_inner_outputs", built == (r2 == o1), cex)]
    if not built:
        return obs
    obs.append(Ob("composition_declares_inner_required_outer_output", comp.required_keys == inner.required_keys and comp.output_keys == outer.output_keys, cex))
    given = SUBSETS[choice(8, "given_keys")]
    try:
        res = comp(_mk_input(keys, given))
        ran = True
    except ValueError:
        ran = False
    obs.append(Ob("application_rejected_iff_keys_differ", ran == (given == r1), cex))
    if ran:
        obs.append(Ob("result_has_declared_keys_and_type", set(res.keys()) == outer.output_keys and type(res) is (t2 if o2 else EmptyTensorDict), cex))
    return obs


def case_conjunction(sp):
    keys = _keys()
    r0 = SUBSETS[choice(8, "required_0")]
    other = SUBSETS[choice(8, "other_required")]
    n = 2 + choice(2, "members")
    reqs = [r0, r0 if choice(2, "second_same_required") == 0 else other]
    outs = [SUBSETS[choice(8, "output_0")], SUBSETS[choice(8, "output_1")]]
    if n == 3:
        reqs.append(r0 if choice(2, "third_same_required") == 0 else other)
        outs.append([frozenset(), frozenset({2}), frozenset({0})][choice(3, "output_2")])
    typs = [(TYPES[1 + choice(2, f"type_{i}")] if outs[i] else [EmptyTensorDict, Gradients, Jacobians][choice(3, f"type_of_empty_{i}")]) for i in range(n)]
    ts = [Stub(keys, reqs[i], outs[i], typs[i], tag=i) for i in range(n)]
    def cex(model=None):
        return dict(kind="typed", which="conjunction", reqs=[sorted(r) for r in reqs], outs=[sorted(o) for o in outs], types=[t.__name__ for t in typs])
    try:
        conj = Conjunction(ts)
        built = True
    except ValueError:
        built = False
    same_req = all(r == reqs[0] for r in reqs)
    disjoint = sum(len(o) for o in outs) == len(set().union(*outs))
    obs = [Ob("conjunction_built_iff_same_required_and_disjoint_outputs", built == (same_req and disjoint), cex)]
    if not built:
        return obs
    obs.append(Ob("conjunction_declares_union_of_outputs", conj.required_keys == ts[0].required_keys and conj.output_keys == {keys[i] for o in outs for i in o}, cex))
    given = [r0, other][choice(2, "given_keys")]
    try:
        res = conj(_mk_input(keys, given))
        ran = True
    except ValueError:
        ran = False
    obs.append(Ob("application_with_other_keys_raises_value_error", ran == (given == reqs[0]), cex))
    if ran:
        exp_t = EmptyTensorDict
        for t in typs:
            exp_t = _lca(exp_t, t)
        obs.append(Ob("result_has_declared_keys_and_most_specific_common_type", set(res.keys()) == conj.output_keys and (type(res) is exp_t), cex))
    return obs


def case_conjunction_rows(sp):
    """the dictionary a conjunction returns is a dictionary of its type like any other: two members that deliver Jacobians with a DIFFERENT number of rows
    cannot be merged ('cannot be created with values whose shapes contradict their type') - ValueError, for every pair of disjoint non-empty outputs"""
    keys = _keys()
    req = SUBSETS[choice(8, "required")]
    pairs = [(a, b) for a in SUBSETS for b in SUBSETS if a and b and not (a & b)]
    oa, ob = pairs[choice(len(pairs), "outputs")]
    ra = 1 + choice(3, "rows_first")
    rb = 1 + choice(3, "rows_second")
    class RowStub(Stub):
        def __init__(self, keys, req, out, rows, tag):
            Stub.__init__(self, keys, req, out, Jacobians, tag)
            self.rows = rows
        def _compute(self, inp):
            return Jacobians({self.keys[i]: _value_for(self.keys[i], Jacobians, rows=self.rows) + self.tag for i in self.out})
    conj = Conjunction([RowStub(keys, req, oa, ra, 1), RowStub(keys, req, ob, rb, 2)])
    def cex(model=None):
        return dict(kind="typed", which="conjunction_rows", req=sorted(req), outs=[sorted(oa), sorted(ob)], rows=[ra, rb])
    try:
        res = conj(_mk_input(keys, req))
        ran = True
    except ValueError:
        ran = False
    return [Ob("conjunction_of_jacobians_with_different_row_counts_is_rejected", ran == (ra == rb), cex)]


def case_assoc(sp):
    keys = _keys()
    s = [SUBSETS[choice(8, f"k{i}")] for i in range(4)]
    a, b, c = Stub(keys, s[2], s[3], Gradients if s[3] else EmptyTensorDict, 1), Stub(keys, s[1], s[2], Gradients if s[2] else EmptyTensorDict, 2), Stub(keys, s[0], s[1], Gradients if s[1] else EmptyTensorDict, 3)
    def cex(model=None):
        return dict(kind="typed", which="assoc", sets=[sorted(x) for x in s])
    l, r = (a << b) << c, a << (b << c)
    inp = _mk_input(keys, s[0])
    rl, rr = l(inp), r(inp)
    obs = [Ob("composition_associative", l.required_keys == r.required_keys and l.output_keys == r.output_keys and type(rl) is type(rr) and set(rl.keys()) == set(rr.keys()) and
              all(z3.is_true(z3.simplify(eq_all(rl[k]._flat(), rr[k]._flat()))) for k in rl), cex)]
    # conjunction: commutative / associative on keys, type and values (disjoint outputs, same required)
    parts = [(0,), (1,), (2,)]
    p = pick_perm(3, "member_order")
    mk = lambda i: Stub(keys, s[0], parts[i], Gradients, tag=i + 1)
    x, y, z = mk(p[0]), mk(p[1]), mk(p[2])
    forms = [(x | y) | z, x | (y | z), (y | x) | z, Conjunction([z, y, x])]
    outs = [f(inp) for f in forms]
    ok = all(f.required_keys == forms[0].required_keys and f.output_keys == forms[0].output_keys for f in forms)
    ok = ok and all(type(o) is type(outs[0]) and set(o.keys()) == set(outs[0].keys()) for o in outs)
    ok = ok and all(z3.is_true(z3.simplify(eq_all(o[k]._flat(), outs[0][k]._flat()))) for o in outs for k in o)
    obs.append(Ob("conjunction_commutative_and_associative", ok, cex))
    return obs


def case_leaves(sp):
    """the real leaf transforms satisfy the contract they declare"""
    keys = _keys()
    sub = SUBSETS[choice(8, "keys")]
    given = SUBSETS[choice(8, "given")]
    which = choice(4, "transform")
    ks = [keys[i] for i in sorted(sub)]
    def cex(model=None):
        return dict(kind="typed", which="leaf", transform=which, keys=sorted(sub), given=sorted(given))
    if which == 0:
        t, req, out, typ, inp = Init(ks), set(), set(ks), Gradients, _mk_input(keys, given)
    elif which == 1:
        t, req, out, typ, inp = Diagonalize(ks), set(ks), set(ks), Jacobians, _mk_input(keys, given)
    elif which == 2:
        t, req, out, typ, inp = Accumulate(ks), set(ks), set(), EmptyTensorDict, _mk_input(keys, given)
    else:
        sel = SUBSETS[choice(8, "selected")]
        try:
            t = Select([keys[i] for i in sel], ks)
            built = True
        except ValueError:
            built = False
        if not built or not sel <= sub:
            return [Ob("select_built_iff_subset", built == (sel <= sub), cex)]
        req, out, typ, inp = set(ks), {keys[i] for i in sel}, Gradients, _mk_input(keys, given)
    obs = [Ob("leaf_declares_keys", t.required_keys == req and t.output_keys == out, cex)]
    match = {keys[i] for i in given} == req
    try:
        res = t(inp)
        ran = True
    except ValueError:
        ran = False
    except RuntimeError:
        # e.g. Diagonalize of an empty key set: torch.cat([]) fails - application did not succeed, nothing is claimed then
        if not match:
            return obs + [Ob("application_with_other_keys_raises_value_error", False, cex)]
        return obs
    obs.append(Ob("application_with_other_keys_raises_value_error", ran == match, cex))
    if ran:
        obs.append(Ob("result_has_declared_keys_and_type", set(res.keys()) == out and isinstance(res, typ), cex))
    return obs


SHAPES = [(), (1,), (2,), (1, 2), (2, 1), (2, 2), (2, 1, 2)]


def case_tdict(sp, ti):
    typ = TYPES[ti]
    ks = SHAPES[choice(len(SHAPES), "key_shape")]
    vs = SHAPES[choice(len(SHAPES), "value_shape")]
    two = choice(2, "second_pair") == 1
    key, val = torch.zeros(ks), torch.zeros(vs)
    d = {key: val}
    vs2 = None
    if two:
        vs2 = SHAPES[choice(len(SHAPES), "value_shape_2")]
        d[torch.zeros(2)] = torch.zeros(vs2)
    def cex(model=None):
        return dict(kind="typed", which="tensor_dict", type=typ.__name__, key_shape=list(ks), value_shape=list(vs), second_value_shape=None if vs2 is None else list(vs2))
    def ok_pair(kshape, vshape):
        n = numel(kshape)
        if typ is Gradients:
            return tuple(vshape) == tuple(kshape)
        if typ is Jacobians:
            return len(vshape) >= 1 and tuple(vshape[1:]) == tuple(kshape)
        if typ is GradientVectors:
            return len(vshape) == 1 and vshape[0] == n
        if typ is JacobianMatrices:
            return len(vshape) == 2 and vshape[1] == n
        return False
    expect = ok_pair(ks, vs) and (not two or ok_pair((2,), vs2))
    if expect and two and typ in (Jacobians, JacobianMatrices):
        expect = vs[0] == vs2[0]
    if typ is EmptyTensorDict:
        expect = False
    try:
        td = typ(d)
        built = True
    except (ValueError, IndexError):  # a 0-d value makes the first-dimension check raise IndexError: creation fails all the same
        built = False
    obs = [Ob("tensor_dict_accepts_iff_shapes_match_its_type", built == expect, cex)]
    if typ is EmptyTensorDict:
        td, built = EmptyTensorDict(), True
    if built:
        muts = [lambda: td.__setitem__(key, val), lambda: td.__delitem__(key), lambda: td.update({}), lambda: td.pop(key), lambda: td.clear(),
                lambda: td.setdefault(key, val), lambda: td.popitem()]
        for i, m in enumerate(muts):
            try:
                m()
                obs.append(Ob("tensor_dict_is_immutable", False, cex))
            except TypeError:
                obs.append(Ob("tensor_dict_is_immutable", True))
    return obs


def case_terms(sp, depth, nkeys=3):
    """every term over the REAL transforms up to the given nesting depth: construction succeeds iff the key condition holds and the
    declared keys/type are delivered"""
    keys = _keys()[:nkeys]
    SUB = [x for x in SUBSETS if all(i < nkeys for i in x)]
    def gen(d):
        """returns (transform | None, required, output, type) built by free choices; None = construction rejected as it must be"""
        kind = choice(6 if d > 0 else 4, f"node_d{d}")
        if kind == 0:
            sub = SUB[choice(len(SUB), "init_keys")]
            return Init([keys[i] for i in sorted(sub)]), frozenset(), sub, Gradients
        if kind == 1:
            sub = SUB[choice(len(SUB), "diag_keys")]
            return Diagonalize([keys[i] for i in sorted(sub)]), sub, sub, Jacobians
        if kind == 2:
            sub = SUB[choice(len(SUB), "acc_keys")]
            return Accumulate([keys[i] for i in sorted(sub)]), sub, frozenset(), EmptyTensorDict
        if kind == 3:
            sub = SUB[choice(len(SUB), "sel_req")]
            sel = SUB[choice(len(SUB), "sel_keys")]
            if not sel <= sub:
                try:
                    Select([keys[i] for i in sel], [keys[i] for i in sub])
                    raise AssertionError("Select accepted a non-subset")
                except ValueError:
                    raise symx.PathAbort("rejected as required")
            return Select([keys[i] for i in sel], [keys[i] for i in sub]), sub, sel, None
        a = gen(d - 1)
        b = gen(d - 1)
        if kind == 4:
            okc = a[1] == b[2]
            try:
                t = a[0] << b[0]
            except ValueError:
                if okc:
                    raise AssertionError("composition rejected although keys match")
                raise symx.PathAbort("rejected as required")
            if not okc:
                raise AssertionError("composition accepted although keys differ")
            return t, b[1], a[2], a[3]
        okc = a[1] == b[1] and not (a[2] & b[2])
        try:
            t = a[0] | b[0]
        except ValueError:
            if okc:
                raise AssertionError("conjunction rejected although well formed")
            raise symx.PathAbort("rejected as required")
        if not okc:
            raise AssertionError("conjunction accepted although ill formed")
        return t, a[1], a[2] | b[2], None
    try:
        t, req, out, typ = gen(depth - 1)
    except AssertionError as e:
        script = [int(v) for _, v in symx.space().choices]
        return [Ob("term_construction_follows_key_rules", False, lambda model=None, e=e: dict(kind="typed", which="terms", depth=depth, nkeys=nkeys, script=script, error=str(e)))]
    ok = t.required_keys == {keys[i] for i in req} and t.output_keys == {keys[i] for i in out}
    script = [int(v) for _, v in symx.space().choices]
    return [Ob("term_declares_expected_keys", ok, lambda model=None: dict(kind="typed", which="terms", depth=depth, nkeys=nkeys, script=script, str=str(t)))]
