"""C05 - with linear aggregators, Jacobian descent coincides with PyTorch autograd."""
from harness.autojac_common import *
from harness import C01, C02
from torchjd.autojac import backward, mtl_backward
from torchjd.aggregation import Constant, Sum, Mean

ASSUMPTIONS = [
    "oracle: the MODEL's torch.autograd.backward on a twin graph (same symbolic local Jacobians, fresh tensor objects); the model's backward is validated against "
    "real torch in /verif/validate and every counterexample is replayed against the real torch.autograd.backward",
    ".grad = None and .grad = zeros are identified (an input that influences no output receives zeros from torchjd - as C01 demands - and is left untouched by autograd)",
    "Constant(w) with a symbolic weight per row (negative and zero weights are points of the domain), Sum, Mean - the real aggregator code is executed",
]


def bounds(tier):
    return dict(backward=dict(programs="C01 'layout' (shapes 0-d,(2,),(1,2)) and 'graph' families", aggregators=["Constant(w symbolic)", "Sum", "Mean"], chunk="by choice"),
                mtl_backward=dict(programs="C02 'structure' family", aggregators=["Constant(w symbolic)", "Sum", "Mean"]))


def cases(tier):
    cs = []
    for agg in range(3):
        for ia in range(3):
            cs.append(dict(name=f"layout_agg{agg}_{ia}", fn="layout", args=dict(tier=tier), prefix=[agg, ia], weight=2))
        for ih in range(7):
            cs.append(dict(name=f"graph_agg{agg}_h{ih}", fn="graph", args=dict(tier=tier), prefix=[agg, ih], weight=4))
        for tf in range(2):
            for nt in range(2):
                cs.append(dict(name=f"mtl_agg{agg}_{tf}{nt}", fn="mtl", args=dict(tier=tier), prefix=[agg, tf, nt], weight=3))
        cs.append(dict(name=f"single_row_agg{agg}", fn="single", args=dict(tier=tier), prefix=[agg], weight=1))
        cs.append(dict(name=f"three_outputs_agg{agg}", fn="three", args=dict(tier=tier), prefix=[agg], weight=1))
    return cs


def _agg(rows):
    a = choice(3, "aggregator")
    if a == 0:
        w = [named(f"w{r}") for r in range(rows)]
        return Constant(T(w)), w, "constant"
    if a == 1:
        return Sum(), [R(1)] * rows, "sum"
    return Mean(), [R(Fraction(1, rows))] * rows, "mean"


def _split(w, prog, outs):
    res, off = [], 0
    for n in outs:
        k = prog[n].numel()
        res.append(torch.Tensor._make(w[off:off + k], prog[n].shape, prog[n].dtype, "real"))
        off += k
    return res


S3 = [(), (2,), (1, 2)]


def case_layout(sp, tier):
    set_kernels()
    ai = choice(3, "aggregator_kind")
    sa, sb, sy1, sy2 = (S3[choice(3, f"shape{i}")] for i in range(4))
    spec = dict(leaves=[("a", sa, True), ("b", sb, True)],
                ops=[dict(name="f1", inputs=["a", "b"], outs=[("y1", sy1)], deps={(0, 0), (0, 1)}),
                     dict(name="f2", inputs=["a"], outs=[("y2", sy2)], deps={(0, 0)})])
    horder = choice(2, "set_order")
    ranks = {"a": horder, "b": 1 - horder, "y1": 10, "y2": 11}
    outs = ["y1", "y2"]
    ins = ["a", "b"] if choice(2, "inputs") == 0 else ["b"]
    return _compare(sp, spec, ranks, outs, ins, ai, chunk_by_choice=True)


def case_single(sp, tier):
    """a single output (possibly a single ROW) - Constant with one arbitrary weight must still scale the gradient"""
    set_kernels()
    ai = choice(3, "aggregator_kind")
    sy = [(), (1,), (1, 1), (2,), (5,), (2, 4)][choice(6, "shape_y")]
    sa = S3[choice(3, "shape_a")]
    spec = dict(leaves=[("a", sa, True), ("b", (2,), True)], ops=[dict(name="f", inputs=["a", "b"], outs=[("y", sy)], deps={(0, 0), (0, 1)})])
    ranks = {"a": 0, "b": 1, "y": 10}
    return _compare(sp, spec, ranks, ["y"], ["a", "b"], ai, chunk_by_choice=True, f64=choice(2, "float64_program") == 1)


def case_three(sp, tier):
    """three outputs of mixed rank in every listing order (scalar, vector, scalar ...): row i of the Jacobian must belong to entry i of the flattened list"""
    set_kernels()
    ai = choice(3, "aggregator_kind")
    shapes = [[(), (2,), ()], [(2,), (), ()], [(), (), (2,)], [(), (1,), ()], [(1, 2), (), (2,)]][choice(5, "output_shapes")]
    spec = dict(leaves=[("a", (2,), True), ("b", (), True)],
                ops=[dict(name="f1", inputs=["a", "b"], outs=[("y1", shapes[0])], deps={(0, 0), (0, 1)}),
                     dict(name="f2", inputs=["a"], outs=[("y2", shapes[1])], deps={(0, 0)}),
                     dict(name="f3", inputs=["a", "b"], outs=[("y3", shapes[2])], deps={(0, 0), (0, 1)})])
    order = perms(3)[choice(6, "listing_order")]
    outs = [["y1", "y2", "y3"][i] for i in order]
    ranks = {"a": 0, "b": 1, "y1": 10, "y2": 11, "y3": 12}
    return _compare(sp, spec, ranks, outs, ["a", "b"], ai, chunk_by_choice=False)


def case_graph(sp, tier):
    set_kernels()
    ai = choice(3, "aggregator_kind")
    hsub = C01.SUBSETS3[choice(7, "h_inputs")]
    c_rg = choice(2, "c_requires_grad") == 0
    names = ["a", "b", "c", "h"]
    y1sub = C01.SUBSETS4[choice(15, "y1_inputs")]
    y2sub = [s for s in C01.SUBSETS4 if 1 not in s][choice(7, "y2_inputs")]
    spec = dict(leaves=[("a", (2,), True), ("b", (), True), ("c", (2,), c_rg)],
                ops=[dict(name="fh", inputs=[names[i] for i in hsub], outs=[("h", (2,))], deps={(0, i) for i in range(len(hsub))}),
                     dict(name="f1", inputs=[names[i] for i in y1sub], outs=[("y1", (2,))], deps={(0, i) for i in range(len(y1sub))}),
                     dict(name="f2", inputs=[names[i] for i in y2sub], outs=[("y2", ())], deps={(0, i) for i in range(len(y2sub))})])
    rgl = ["a", "b"] + (["c"] if c_rg else [])
    subs = [s for r in range(1, len(rgl) + 1) for s in itertools.combinations(rgl, r)]
    ins = list(subs[choice(len(subs), "inputs_subset")])
    ranks = {n: i for i, n in enumerate(ins)}
    ranks.update({"y1": 10, "y2": 11, "h": 12})
    return _compare(sp, spec, ranks, ["y1", "y2"], ins, ai, chunk_by_choice=False)


def _compare(sp, spec, ranks, outs, ins, ai, chunk_by_choice, f64=False):
    dt = torch.float64 if f64 else None
    if f64:
        torch.KERNELS["lossy_casts"] = "both"  # any change of floating dtype of a non-dyadic value is an arbitrary perturbation
    prog = Prog(spec, ranks=ranks, dtype=dt)
    if not all(prog[n].requires_grad for n in outs):
        raise symx.PathAbort("an output does not require grad")
    rows = sum(prog[n].numel() for n in outs)
    if ai == 0:
        w = [named(f"w{r}") for r in range(rows)]
        A, nm = Constant(T(w, dt)), "constant"
    elif ai == 1:
        w, A, nm = [R(1)] * rows, Sum(), "sum"
    else:
        w, A, nm = [R(Fraction(1, rows))] * rows, Mean(), "mean"
    ks = chunk_options(rows) if chunk_by_choice else [None, 2]
    k = ks[choice(len(ks), "chunk")]
    old_b = set_grad(prog["b"], "b")
    # history: the same aggregator object may have been applied before to a matrix of the OTHER floating dtype (whether that call succeeds or
    # raises a dtype error is not this property's business; what it leaves behind in the aggregator is)
    prior = f64 and ai == 0 and choice(2, "aggregator_applied_before_to_a_float32_matrix") == 1
    if prior:
        try:
            A(T([[R(1)] for _ in range(rows)], torch.float32))
        except (RuntimeError, TypeError, ValueError):
            pass
    def cex(model):
        return dict(kind="autojac_vs_autograd", spec=spec_json(spec), outputs=outs, inputs=ins, jac=jac_values(model, prog), agg=nm,
                    w=cex_values(model, w=w)["w"], chunk=k, old={"b": cex_values(model, g=old_b)["g"]}, dtype="float64" if f64 else "float32", prior_float32=bool(prior))
    _, failed = valid_call(lambda: backward([prog[n] for n in outs], A, inputs=[prog[n] for n in ins], parallel_chunk_size=k), cex, "backward_on_valid_arguments_succeeds")
    if failed:
        return failed
    twin = Prog(spec, ranks={kk: v + 100 for kk, v in ranks.items()}, dtype=dt)
    set_grad(twin["b"], "b")
    torch.autograd.backward([twin[n] for n in outs], grad_tensors=_split(w, twin, outs), inputs=[twin[n] for n in ins])
    obs = []
    for n in prog.leaf_names():
        g1, g2 = grad_list(prog[n]), grad_list(twin[n])
        if g1 is None and g2 is None:
            obs.append(Ob("no_grad_on_both_sides", True))
            continue
        z = [R(0)] * prog[n].numel()  # a leaf that is not reached gets zeros from torchjd and stays None under autograd: same value
        obs.append(Ob(f"same_grad_as_autograd[{nm}]", eq_all(g1 if g1 is not None else z, g2 if g2 is not None else z), cex))
    return obs


def case_mtl(sp, tier):
    set_kernels()
    ai = choice(3, "aggregator_kind")
    spec, feats, n_tasks, tasks_params = C02.make_spec(sp, tier, "structure")
    ranks = {"p0": 0, "p1": 1}
    for i, (n, _, _) in enumerate(spec["leaves"]):
        ranks.setdefault(n, 20 + i)
    for i, o in enumerate(spec["ops"]):
        for n, _ in o["outs"]:
            ranks[n] = 40 + i
    prog = Prog(spec, ranks=ranks)
    if ai == 0:
        w = [named(f"w{r}") for r in range(n_tasks)]
        A, nm = Constant(T(w)), "constant"
    elif ai == 1:
        w, A, nm = [R(1)] * n_tasks, Sum(), "sum"
    else:
        w, A, nm = [R(Fraction(1, n_tasks))] * n_tasks, Mean(), "mean"
    losses = [f"loss{t}" for t in range(n_tasks)]
    k = [None, 2][choice(2, "chunk")]
    old = set_grad(prog["p1"], "p1")
    mtl_backward([prog[n] for n in losses], [prog[f] for f in feats], A, tasks_params=[[prog[n] for n in ps] for ps in tasks_params],
                 shared_params=[prog["p0"], prog["p1"]], parallel_chunk_size=k)
    twin = Prog(spec, ranks={kk: v + 100 for kk, v in ranks.items()})
    set_grad(twin["p1"], "p1")
    torch.autograd.backward([twin[n] for n in losses], grad_tensors=[torch.Tensor._make([w[t]], (), twin[losses[t]].dtype, "real") for t in range(n_tasks)],
                            inputs=[twin["p0"], twin["p1"]], retain_graph=True)
    for t in range(n_tasks):
        if tasks_params[t]:
            twin[losses[t]].backward(inputs=[twin[n] for n in tasks_params[t]], retain_graph=True)
    def cex(model):
        return dict(kind="mtl_vs_autograd", spec=spec_json(spec), losses=losses, features=feats, tasks_params=tasks_params, shared_params=["p0", "p1"],
                    jac=jac_values(model, prog), agg=nm, w=cex_values(model, w=w)["w"], chunk=k, old={"p1": cex_values(model, g=old)["g"]})
    obs = []
    for n in prog.leaf_names():
        g1, g2 = grad_list(prog[n]), grad_list(twin[n])
        if g1 is None and g2 is None:
            obs.append(Ob("no_grad_on_both_sides", True))
            continue
        z = [R(0)] * prog[n].numel()  # a leaf that is not reached gets zeros from torchjd and stays None under autograd: same value
        obs.append(Ob(f"mtl_same_grad_as_autograd[{nm}]", eq_all(g1 if g1 is not None else z, g2 if g2 is not None else z), cex))
    return obs
