"""C15 - each building-block transform computes its specified linear map, for all shapes."""
from harness.autojac_common import *
from torchjd.autojac._transform import (Grad, Jac, Init, Diagonalize, Stack, Select, Aggregate, Gradients, Jacobians, EmptyTensorDict, Accumulate)

ASSUMPTIONS = [
    "each transform is run alone on dictionaries with SYMBOLIC cotangent values over programs with symbolic local Jacobians; key counts 1-2 (3 for Diagonalize/Init), "
    "tensor shapes by free choice incl. mixed 0-d / n-d and equal-size keys, batch sizes 1..4, every chunk size, all dictionary/key orders (tensor hashes by choice)",
    "reference formulas are written in the harness over solver terms (vector-Jacobian products by forward accumulation)",
]


def bounds(tier):
    S = SHAPES_T if tier == "thorough" else SHAPES_Q
    return dict(shapes=[list(s) for s in S], batch=[1, 2, 3, 4] if tier == "thorough" else [1, 2, 3], chunk="None, 1..batch+1", keys="<= 3")


def cases(tier):
    S = SHAPES_T if tier == "thorough" else SHAPES_Q
    cs = []
    for i in range(len(S)):
        cs.append(dict(name=f"grad_{i}", fn="grad", args=dict(tier=tier), prefix=[i], weight=2))
        cs.append(dict(name=f"jac_{i}", fn="jac", args=dict(tier=tier), prefix=[i], weight=4))
        cs.append(dict(name=f"chain_{i}", fn="chain", args=dict(tier=tier), prefix=[i], weight=3))
        cs.append(dict(name=f"init_diag_{i}", fn="init_diag", args=dict(tier=tier), prefix=[i], weight=2))
        cs.append(dict(name=f"stack_{i}", fn="stack", args=dict(tier=tier), prefix=[i], weight=2))
        cs.append(dict(name=f"aggregate_{i}", fn="aggregate", args=dict(tier=tier), prefix=[i], weight=2))
    extra = [x for x in [(2, 2), (2, 3)] if x not in S]
    for j in range(len(extra)):
        cs.append(dict(name=f"aggregate_2d_{j}", fn="aggregate", args=dict(tier=tier), prefix=[len(S) + j], weight=2))
    return cs


def _S(tier):
    return SHAPES_T if tier == "thorough" else SHAPES_Q


def _sym(name, shape, dtype=None):
    n = numel(shape)
    return torch.Tensor._make([named(f"{name}_{k}") for k in range(n)], tuple(shape), dtype or torch.float32, "real")


def _prog(sa, sb, s1, s2, horder):
    spec = dict(leaves=[("a", sa, True), ("b", sb, True), ("u", (2,), True)],
                ops=[dict(name="f1", inputs=["a", "b"], outs=[("y1", s1)], deps={(0, 0), (0, 1)}),
                     dict(name="f2", inputs=["a"], outs=[("y2", s2)], deps={(0, 0)})])
    return spec, Prog(spec, ranks={"a": horder, "b": 1 - horder, "u": 2, "y1": 10 + horder, "y2": 11 - horder})


def _vjp(prog, cots, inp):
    """sum over outputs of cot_out^T @ d out / d inp"""
    D = prog.total_jac(inp)
    acc = [R(0)] * prog[inp].numel()
    for on, cot in cots.items():
        M = D.get(on)
        if M is None:
            continue
        acc = [a + b for a, b in zip(acc, vecmat(cot, M))]
    return acc


def case_grad(sp, tier):
    set_kernels()
    S = _S(tier)
    sa = S[choice(len(S), "shape_a")]
    sb, s1, s2 = S[choice(len(S), "shape_b")], S[choice(len(S), "shape_y1")], S[choice(len(S), "shape_y2")]
    horder = choice(2, "key_order")
    spec, prog = _prog(sa, sb, s1, s2, horder)
    cot = {"y1": _sym("c1", s1), "y2": _sym("c2", s2)}
    ins = [["a", "b", "u"], ["b", "a"], ["u"], ["a"]][choice(4, "inputs")]
    outs = ["y1", "y2"] if choice(2, "out_order") == 0 else ["y2", "y1"]
    def cex(model):
        return dict(kind="transform", which="grad", spec=spec_json(spec), outputs=outs, inputs=ins, jac=jac_values(model, prog),
                    cot={k: cex_values(model, c=v._flat())["c"] for k, v in cot.items()})
    try:
        res = Grad([prog[n] for n in outs], [prog[n] for n in ins])(Gradients({prog[n]: cot[n] for n in outs}))
    except (RuntimeError, ValueError, TypeError, IndexError, KeyError) as e:
        return [Ob("grad_is_vector_jacobian_product", False, lambda model, e=e: dict(cex(model), raised=f"{type(e).__name__}: {e}"))]
    obs = [Ob("grad_output_type_and_keys", isinstance(res, Gradients) and set(res.keys()) == {prog[n] for n in ins}, cex)]
    for n in ins:
        exp = _vjp(prog, {k: cot[k]._flat() for k in outs}, n)
        obs.append(Ob("grad_is_vector_jacobian_product", tuple(res[prog[n]].shape) == tuple(prog[n].shape) and eq_all(res[prog[n]]._flat(), exp), cex))
    return obs


def case_jac(sp, tier):
    set_kernels()
    S = _S(tier)
    sa = S[choice(len(S), "shape_a")]
    sb = S[choice(len(S), "shape_b")]
    s1 = [(), (2,), (1, 2)][choice(3, "shape_y1")]
    s2 = [(), (2,)][choice(2, "shape_y2")]
    horder = choice(2, "key_order")
    spec, prog = _prog(sa, sb, s1, s2, horder)
    Bn = 1 + choice(4 if tier == "thorough" else 3, "batch")
    ks = [None] + list(range(1, Bn + 2))
    k = ks[choice(len(ks), "chunk")]
    cot = {"y1": _sym("c1", (Bn,) + tuple(s1)), "y2": _sym("c2", (Bn,) + tuple(s2))}
    ins = [["a", "b", "u"], ["b", "a"]][choice(2, "inputs")]
    outs = ["y1", "y2"]
    def cex(model):
        return dict(kind="transform", which="jac", spec=spec_json(spec), outputs=outs, inputs=ins, jac=jac_values(model, prog), chunk=k, batch=Bn,
                    cot={kk: cex_values(model, c=v.tolist())["c"] for kk, v in cot.items()})
    try:
        res = Jac([prog[n] for n in outs], [prog[n] for n in ins], chunk_size=k)(Jacobians({prog[n]: cot[n] for n in outs}))
    except (RuntimeError, ValueError, TypeError, IndexError, KeyError) as e:
        # every input of this family is valid (an input the outputs do not depend on has a zero Jacobian): raising is not computing the stated map
        return [Ob("jac_is_rowwise_vector_jacobian_product", False, lambda model, e=e: dict(cex(model), raised=f"{type(e).__name__}: {e}"))]
    obs = [Ob("jac_output_type_and_keys", isinstance(res, Jacobians) and set(res.keys()) == {prog[n] for n in ins}, cex)]
    for n in ins:
        t = res[prog[n]]
        ok_shape = tuple(t.shape) == (Bn,) + tuple(prog[n].shape)
        rows = []
        for r in range(Bn):
            rows.extend(_vjp(prog, {kk: cot[kk][r]._flat() for kk in outs}, n))
        obs.append(Ob("jac_is_rowwise_vector_jacobian_product", ok_shape and eq_all(t._flat(), rows), cex))
    return obs


def case_chain(sp, tier):
    """Jac o Jac and Grad o Grad through an intermediate tensor == differentiating end to end"""
    set_kernels()
    S = _S(tier)
    sh = S[choice(len(S), "shape_h")]
    sa = [(), (2,), (2, 1)][choice(3, "shape_a")]
    sy = [(), (2,)][choice(2, "shape_y")]
    spec = dict(leaves=[("a", sa, True), ("b", (2,), True)],
                ops=[dict(name="g", inputs=["a", "b"], outs=[("h", sh)], deps={(0, 0), (0, 1)}),
                     dict(name="f", inputs=["h"], outs=[("y", sy)], deps={(0, 0)})])
    prog = Prog(spec)
    Bn = 1 + choice(2, "batch")
    k = [None, 1][choice(2, "chunk")]
    cj = _sym("c", (Bn,) + tuple(sy))
    cg = _sym("d", sy)
    a, b, h, y = prog["a"], prog["b"], prog["h"], prog["y"]
    two = (Jac([h], [a, b], chunk_size=k, retain_graph=True) << Jac([y], [h], chunk_size=k, retain_graph=True))(Jacobians({y: cj}))
    one = Jac([y], [a, b], chunk_size=k, retain_graph=True)(Jacobians({y: cj}))
    g2 = (Grad([h], [a, b], retain_graph=True) << Grad([y], [h], retain_graph=True))(Gradients({y: cg}))
    g1 = Grad([y], [a, b], retain_graph=True)(Gradients({y: cg}))
    def cex(model):
        return dict(kind="transform", which="chain", spec=spec_json(spec), jac=jac_values(model, prog), chunk=k, batch=Bn,
                    cot=dict(cj=cex_values(model, c=cj.tolist())["c"], cg=cex_values(model, c=cg.tolist())["c"]))
    obs = []
    for t in (a, b):
        obs.append(Ob("jac_composition_equals_end_to_end", eq_all(two[t]._flat(), one[t]._flat()), cex))
        obs.append(Ob("grad_composition_equals_end_to_end", eq_all(g2[t]._flat(), g1[t]._flat()), cex))
    return obs


def case_init_diag(sp, tier):
    set_kernels()
    S = _S(tier)
    shapes = [S[choice(len(S), f"shape{i}")] for i in range(3)]
    nk = 1 + choice(3, "n_keys")
    shapes = shapes[:nk]
    ps = perms(nk)
    hp = ps[choice(len(ps), "hash_order")]
    keys = [_sym(f"k{i}", s) for i, s in enumerate(shapes)]
    for i, t in enumerate(keys):
        t._h = hp[i]
    order = list(perms(nk)[choice(len(ps), "considered_order")])
    def cex(model=None):
        return dict(kind="transform", which="init_diag", shapes=[list(s) for s in shapes], order=order, hash_order=list(hp))
    ini = Init(keys)(EmptyTensorDict())
    obs = [Ob("init_yields_ones", isinstance(ini, Gradients) and set(ini.keys()) == set(keys) and
              all(tuple(ini[t].shape) == tuple(t.shape) and all(x.conc and x.frac() == 1 for x in ini[t]._flat()) for t in keys), cex)]
    vals = {t: _sym(f"g{i}", t.shape) for i, t in enumerate(keys)}
    considered = [keys[i] for i in order]
    dg = Diagonalize(considered)(Gradients(vals))
    total = sum(t.numel() for t in keys)
    ok = isinstance(dg, Jacobians) and set(dg.keys()) == set(keys)
    forms = []
    off = 0
    for t in considered:
        J = dg[t]
        ok = ok and tuple(J.shape) == (total,) + tuple(t.shape)
        fl = J._flat() if ok else []
        n = t.numel()
        g = vals[t]._flat()
        exp = []
        for r in range(total):
            for c in range(n):
                exp.append(g[c] if r == off + c else R(0))
        if ok:
            forms.append(eq_all(fl, exp))
        off += n
    obs.append(Ob("diagonalize_one_row_per_scalar_in_key_order", z3.And(*forms) if ok and forms else bool(ok), cex))
    return obs


def case_stack(sp, tier):
    set_kernels()
    S = _S(tier)
    s0 = S[choice(len(S), "shape_k0")]
    s1 = S[choice(len(S), "shape_k1")]
    f64 = choice(2, "float64") == 1
    dt = torch.float64 if f64 else torch.float32
    if f64:
        torch.KERNELS["lossy_casts"] = True  # a float64 -> float32 conversion is an arbitrary perturbation, not the identity
    k0, k1 = _sym("k0", s0, dt), _sym("k1", s1, dt)
    hp = choice(2, "hash_order")
    k0._h, k1._h = hp, 1 - hp
    nt = 2 + choice(2, "n_transforms")
    present = [[(0,), (1,), (0, 1), ()][choice(4, f"keys_of_transform_{i}")] for i in range(nt)]
    class Const:
        """a transform producing fixed Gradients (stand-in for a task transform)"""
        def __init__(self, i, ks):
            self.d = Gradients({[k0, k1][j]: _sym(f"t{i}_{j}", [s0, s1][j], dt) for j in ks})
        def __call__(self, inp):
            return self.d
        required_keys = set()
        @property
        def output_keys(self):
            return set(self.d.keys())
    ts = [Const(i, ks) for i, ks in enumerate(present)]
    res = Stack(ts)(EmptyTensorDict())
    def cex(model=None):
        return dict(kind="transform", which="stack", shapes=[list(s0), list(s1)], present=[list(p) for p in present], dtype="float64" if f64 else "float32")
    used = sorted({j for p in present for j in p})
    ok = isinstance(res, Jacobians) and set(res.keys()) == {[k0, k1][j] for j in used}
    forms = []
    for j in used:
        key = [k0, k1][j]
        J = res[key]
        ok = ok and tuple(J.shape) == (nt,) + tuple(key.shape) and J.dtype is dt
        exp = []
        for i in range(nt):
            exp.extend(ts[i].d[key]._flat() if key in ts[i].d else [R(0)] * key.numel())
        if ok:
            forms.append(eq_all(J._flat(), exp))
    return [Ob("stack_row_i_is_transform_i_zeros_when_absent", z3.And(*forms) if ok and forms else bool(ok), cex)]


def case_aggregate(sp, tier):
    set_kernels()
    S = _S(tier)
    S0 = list(S) + [x for x in [(2, 2), (2, 3)] if x not in S]  # genuinely two-dimensional keys, for the non-contiguous layouts below
    s0 = S0[choice(len(S0), "shape_k0")]
    s1 = S[choice(len(S), "shape_k1")]
    k0, k1 = _sym("k0", s0), _sym("k1", s1)
    # a key may have a non-contiguous memory layout (a transposed parameter): the gradient must still be laid out by the key's SHAPE
    k0_t = len(s0) == 2 and choice(2, "k0_is_a_transposed_view") == 1
    if k0_t:
        k0 = _sym("k0", tuple(reversed(s0))).T
    hp = choice(2, "hash_order")
    k0._h, k1._h = hp, 1 - hp
    m = 1 + choice(3, "rows")
    order = [[k0, k1], [k1, k0]][choice(2, "key_order")]
    jd = {k0: _sym("j0", (m,) + tuple(s0)), k1: _sym("j1", (m,) + tuple(s1))}
    A = AStar()
    res = Aggregate(A, order)(Jacobians(jd))
    def cex(model=None):
        return dict(kind="transform", which="aggregate", shapes=[list(s0), list(s1)], rows=m, order=[0 if t is k0 else 1 for t in order], k0_transposed=bool(k0_t))
    if len(A.seen) != 1:
        return [Ob("aggregate_calls_aggregator_once", False, cex)]
    M = rows_of(A.seen[0])
    v = A.outs[0]._flat()
    exp_rows = []
    for r in range(m):
        row = []
        for t in order:
            n = t.numel()
            row.extend(jd[t]._flat()[r * n:(r + 1) * n])
        exp_rows.append(row)
    ok = isinstance(res, Gradients) and set(res.keys()) == {k0, k1}
    forms = [mat_eq(M, exp_rows)]
    off = 0
    for t in order:
        n = t.numel()
        ok = ok and tuple(res[t].shape) == tuple(t.shape)
        if ok:
            forms.append(eq_all(res[t]._flat(), v[off:off + n]))
        off += n
    return [Ob("aggregate_is_aggregator_on_column_concatenation_and_back", z3.And(*forms) if ok else False, cex)]
