"""C01 - backward() deposits the aggregation of the true Jacobian into .grad."""
from harness.autojac_common import *
from torchjd.autojac import backward

ASSUMPTIONS = [
    "programs are symbolic: every op has an arbitrary (free real) local Jacobian w.r.t. each input it depends on; graph shapes, tensor shapes, requires_grad flags, "
    "the subset/order of `inputs`, the order of `tensors`, the iteration order of set(inputs) (via tensor hashes) and parallel_chunk_size are enumerated by free choice",
    "the aggregator is UNINTERPRETED (records the matrix it receives, returns fresh reals): the obligations therefore hold for every deterministic aggregator, row-order-sensitive or not",
    "oracle Jacobian = forward accumulation of path products, a different algorithm from the model's reverse sweep",
    "'does not depend on the order in which inputs are listed' = (column blocks and slices are permuted consistently: this harness) + (column-permutation equivariance of the aggregator: C08)",
    "graphs without retain_grad() tensors; create_graph=False",
]


def bounds(tier):
    return dict(layout=dict(leaves=2, outputs=2, shapes=[list(s) for s in (SHAPES_T if tier == "thorough" else SHAPES_Q)], chunk="None, 1..rows+2", set_orders="all", output_orders="both"),
                graph=dict(leaves=3, intermediate=1, outputs=2, element_counts="2 (one 0-d leaf)", edges="all non-empty input subsets", inputs="all non-empty subsets of the leaves requiring grad, all set orders",
                           chunk=[None, 1, 2] if tier == "thorough" else [None, 2]))


def cases(tier):
    cs = []
    S = SHAPES_T if tier == "thorough" else SHAPES_Q
    for ia in range(len(S)):
        for ib in range(len(S)):
            cs.append(dict(name=f"layout_{ia}_{ib}", fn="layout", args=dict(tier=tier), prefix=[ia, ib], weight=3))
    for ih in range(7):
        for rg in range(2):
            cs.append(dict(name=f"graph_h{ih}_rg{rg}", fn="graph", args=dict(tier=tier), prefix=[ih, rg], weight=5))
    cs.append(dict(name="multi_output_op", fn="multi", args=dict(tier=tier), weight=2))
    cs.append(dict(name="three_outputs_mixed_rank", fn="three", args=dict(tier=tier), weight=2))
    for k in range(4):
        cs.append(dict(name=f"single_output_container{k}", fn="single", args=dict(tier=tier), prefix=[k], weight=2))
    return cs


def _check_backward(prog, out_names, in_names, astar, old, v_after_names=None):
    """obligations for one backward() call.  old: dict name -> list (grad before) or None"""
    outs = out_names
    ins = in_names
    obs = []
    untouched = [n for n in prog.leaf_names() if n not in ins]
    # column order chosen by the code is unknown to the oracle: some permutation of the inputs
    alts = []
    if len(astar.seen) != (1 if ins else 0):
        return [Ob("aggregator_called_once", False)], None
    if not ins:
        return [Ob("no_inputs_no_effect", True)], None
    M = rows_of(astar.seen[0])
    v = astar.outs[0]._flat()
    for pi in itertools.permutations(ins):
        J = prog.jacobian(outs, list(pi))
        conds = [mat_eq(M, J)]
        off = 0
        for n in pi:
            t = prog[n]
            k = t.numel()
            sl = v[off:off + k]
            off += k
            g = grad_list(t)
            if g is None or tuple(t.grad.shape) != tuple(t.shape):
                conds.append(z3.BoolVal(False))
                continue
            before = old.get(n)
            conds.append(eq_all(g, [(before[c] if before is not None else R(0)) + sl[c] for c in range(k)]))
        alts.append(z3.And(*conds))
    return alts, untouched


def _run_and_finish(sp, prog, spec, outs, ins, astar, old, extra, call):
    """the call under analysis has valid arguments: an ordinary exception is a failed obligation"""
    def cex(model):
        return dict(kind="autojac_backward", spec=spec_json(spec), outputs=outs, inputs=ins, jac=jac_values(model, prog),
                    v=[], old={k: (cex_values(model, g=g)["g"] if g is not None else None) for k, g in old.items()}, **extra)
    _, failed = valid_call(call, cex, "backward_on_valid_arguments_succeeds")
    if failed:
        return failed
    return _finish(sp, prog, spec, outs, ins, astar, old, extra)


def _finish(sp, prog, spec, outs, ins, astar, old, extra):
    alts, untouched = _check_backward(prog, outs, ins, astar, old)
    def cex(model):
        return dict(kind="autojac_backward", spec=spec_json(spec), outputs=outs, inputs=ins, jac=jac_values(model, prog),
                    v=cex_values(model, v=[o._flat() for o in astar.outs])["v"], old={k: (cex_values(model, g=g)["g"] if g is not None else None) for k, g in old.items()}, **extra)
    if untouched is None:
        for a in alts:
            if isinstance(a, Ob) and a.cex is None:
                a.cex = cex
        return [a if isinstance(a, Ob) else Ob("?", a, cex) for a in alts]
    obs = [Ob("jacobian_rows_columns_and_grad_slices", z3.Or(*alts), cex)]
    for n in untouched:
        t = prog[n]
        before = old.get(n)
        g = grad_list(t)
        same = (g is None) if before is None else (g is not None and z3.is_true(z3.simplify(eq_all(g, before))))
        obs.append(Ob("other_leaves_untouched", bool(same), cex))
    return obs


def case_layout(sp, tier):
    set_kernels()
    S = SHAPES_T if tier == "thorough" else SHAPES_Q
    sa, sb = S[choice(len(S), "shape_a")], S[choice(len(S), "shape_b")]
    sy1, sy2 = S[choice(len(S), "shape_y1")], S[choice(len(S), "shape_y2")]
    spec = dict(leaves=[("a", sa, True), ("b", sb, True)],
                ops=[dict(name="f1", inputs=["a", "b"], outs=[("y1", sy1)], deps={(0, 0), (0, 1)}),
                     dict(name="f2", inputs=["a"], outs=[("y2", sy2)], deps={(0, 0)})])
    horder = choice(2, "set_order")
    prog = Prog(spec, ranks={"a": horder, "b": 1 - horder, "y1": 10, "y2": 11})
    outs = ["y1", "y2"] if choice(2, "tensor_order") == 0 else ["y2", "y1"]
    ins = ["a", "b"] if choice(2, "listing_order") == 0 else ["b", "a"]
    rows = sum(prog[n].numel() for n in outs)
    ks = chunk_options(rows)
    k = ks[choice(len(ks), "chunk")]
    old = {"a": None, "b": set_grad(prog["b"], "b")}
    A = AStar()
    return _run_and_finish(sp, prog, spec, outs, ins, A, old, dict(chunk=k, hash_order=horder),
                           lambda: backward([prog[n] for n in outs], A, inputs=[prog[n] for n in ins], parallel_chunk_size=k))


SUBSETS3 = [s for r in (1, 2, 3) for s in itertools.combinations(range(3), r)]
SUBSETS4 = [s for r in (1, 2, 3, 4) for s in itertools.combinations(range(4), r)]


def case_graph(sp, tier):
    set_kernels()
    hsub = SUBSETS3[choice(7, "h_inputs")]
    c_rg = choice(2, "c_requires_grad") == 0
    names = ["a", "b", "c", "h"]
    y1sub = SUBSETS4[choice(15, "y1_inputs")]
    y2sub = [s for s in SUBSETS4 if 1 not in s][choice(7, "y2_inputs")]  # y2 never uses b directly
    shapes = {"a": (2,), "b": (), "c": (2,), "h": (2,), "y1": (2,), "y2": ()}
    spec = dict(leaves=[("a", shapes["a"], True), ("b", shapes["b"], True), ("c", shapes["c"], c_rg)],
                ops=[dict(name="fh", inputs=[names[i] for i in hsub], outs=[("h", shapes["h"])], deps={(0, i) for i in range(len(hsub))}, saves=True),
                     dict(name="f1", inputs=[names[i] for i in y1sub], outs=[("y1", shapes["y1"])], deps={(0, i) for i in range(len(y1sub))}),
                     dict(name="f2", inputs=[names[i] for i in y2sub], outs=[("y2", shapes["y2"])], deps={(0, i) for i in range(len(y2sub))})])
    rgl = ["a", "b"] + (["c"] if c_rg else [])
    subs = [s for r in range(1, len(rgl) + 1) for s in itertools.combinations(rgl, r)]
    ins = list(subs[choice(len(subs), "inputs_subset")])
    ps = perms(len(ins))
    hp = ps[choice(len(ps), "set_order")]
    ranks = {n: hp[i] for i, n in enumerate(ins)}
    ranks.update({"y1": 10, "y2": 11, "h": 12})
    prog = Prog(spec, ranks=ranks)
    outs = ["y1", "y2"]
    # outputs must require grad, otherwise torch (and the model) reject the call: not the subject here
    if not all(prog[n].requires_grad for n in outs):
        raise symx.PathAbort("an output does not require grad")
    ks = [None, 1, 2] if tier == "thorough" else [None, 2]
    k = ks[choice(len(ks), "chunk")]
    old = {n: None for n in prog.leaf_names()}
    if "a" in ins:
        old["a"] = set_grad(prog["a"], "a")
    if c_rg:
        old["c"] = set_grad(prog["c"], "c")
    A = AStar()
    return _run_and_finish(sp, prog, spec, outs, ins, A, old, dict(chunk=k, hash_order=list(hp)),
                           lambda: backward([prog[n] for n in outs], A, inputs=[prog[n] for n in ins], parallel_chunk_size=k))


def case_three(sp, tier):
    """three outputs of mixed rank in every listing order (scalar, vector, scalar ...) and three inputs"""
    set_kernels()
    shapes = [[(), (2,), ()], [(2,), (), ()], [(), (), (2,)], [(), (1,), ()], [(1, 2), (), (2,)]][choice(5, "output_shapes")]
    spec = dict(leaves=[("a", (2,), True), ("b", (), True), ("c", (1, 2), True)],
                ops=[dict(name="f1", inputs=["a", "b"], outs=[("y1", shapes[0])], deps={(0, 0), (0, 1)}),
                     dict(name="f2", inputs=["a", "c"], outs=[("y2", shapes[1])], deps={(0, 0), (0, 1)}),
                     dict(name="f3", inputs=["a", "b", "c"], outs=[("y3", shapes[2])], deps={(0, 0), (0, 1), (0, 2)})])
    order = perms(3)[choice(6, "listing_order")]
    outs = [["y1", "y2", "y3"][i] for i in order]
    iorder = perms(3)[choice(6, "input_order")]
    ins = [["a", "b", "c"][i] for i in iorder]
    prog = Prog(spec, ranks={"a": 0, "b": 1, "c": 2, "y1": 10, "y2": 11, "y3": 12})
    k = [None, 2][choice(2, "chunk")]
    old = {"a": set_grad(prog["a"], "a"), "b": None, "c": None}
    A = AStar()
    return _run_and_finish(sp, prog, spec, outs, ins, A, old, dict(chunk=k, hash_order=0),
                           lambda: backward([prog[n] for n in outs], A, inputs=[prog[n] for n in ins], parallel_chunk_size=k))


def case_multi(sp, tier):
    """one op with two outputs (shared grad_fn), plus reuse of a leaf by both outputs; defaulted and explicit inputs"""
    set_kernels()
    S = [(), (2,), (1, 2)]
    sa = S[choice(3, "shape_a")]
    s1, s2 = S[choice(3, "shape_y1")], S[choice(3, "shape_y2")]
    deps = [{(0, 0), (1, 0), (0, 1)}, {(0, 0), (1, 1)}, {(0, 0), (0, 1), (1, 0), (1, 1)}][choice(3, "deps")]
    spec = dict(leaves=[("a", sa, True), ("b", (2,), True)],
                ops=[dict(name="g", inputs=["a", "b"], outs=[("y1", s1), ("y2", s2)], deps=deps)])
    horder = choice(2, "set_order")
    prog = Prog(spec, ranks={"a": horder, "b": 1 - horder, "y1": 10, "y2": 11})
    outs = ["y1", "y2"]
    rows = sum(prog[n].numel() for n in outs)
    ks = chunk_options(rows)
    k = ks[choice(len(ks), "chunk")]
    old = {"a": set_grad(prog["a"], "a"), "b": None}
    A = AStar()
    return _run_and_finish(sp, prog, spec, outs, ["a", "b"], A, old, dict(chunk=k, hash_order=horder),
                           lambda: backward([prog[n] for n in outs], A, inputs=[prog["a"], prog["b"]], parallel_chunk_size=k))


def as_container(items, kind):
    """`inputs` is typed Iterable[Tensor]: lists, tuples, one-shot generators and iterators are all legitimate"""
    if kind == 0:
        return list(items)
    if kind == 1:
        return tuple(items)
    if kind == 2:
        return (x for x in items)
    return iter(list(items))


def case_single(sp, tier):
    """a single output tensor (incl. a single ROW: 0-d / one-element outputs), `inputs` given as list / tuple / generator / iterator"""
    set_kernels()
    kind = choice(4, "container_kind")
    sy = [(), (1,), (1, 1), (2,), (2, 1)][choice(5, "shape_y")]
    sa = [(), (2,), (1, 2)][choice(3, "shape_a")]
    spec = dict(leaves=[("a", sa, True), ("b", (2,), True), ("c", (), True)],
                ops=[dict(name="f", inputs=["a", "b"], outs=[("y", sy)], deps={(0, 0), (0, 1)})])
    horder = choice(2, "set_order")
    f64 = choice(2, "float64_program") == 1
    if f64:
        torch.KERNELS["lossy_casts"] = True  # float64 -> float32 conversions are arbitrary perturbations, not the identity
    prog = Prog(spec, ranks={"a": horder, "b": 1 - horder, "c": 2, "y": 10}, dtype=torch.float64 if f64 else None)
    ins = [["a", "b"], ["b", "a"], ["a"], ["b", "c", "a"]][choice(4, "inputs")]
    rows = prog["y"].numel()
    ks = chunk_options(rows)
    k = ks[choice(len(ks), "chunk")]
    old = {"a": set_grad(prog["a"], "a"), "b": None, "c": None}
    A = AStar()
    y = prog["y"]
    form = choice(3, "tensors_form")
    extra = dict(chunk=k, hash_order=horder, container=["list", "tuple", "generator", "iterator"][kind], dtype="float64" if f64 else "float32",
                 tensors_form=["tensor", "list", "tuple"][form])
    try:
        backward([y, [y], (y,)][form], A, inputs=as_container([prog[n] for n in ins], kind), parallel_chunk_size=k)
    except (ValueError, TypeError, RuntimeError, AttributeError) as e:
        return [Ob("valid_call_is_accepted", False, lambda model, e=e: dict(kind="autojac_backward", spec=spec_json(spec), outputs=["y"], inputs=ins, jac=jac_values(model, prog),
                                                                            v=[], old={}, raised=f"{type(e).__name__}: {e}", **extra))]
    return _finish(sp, prog, spec, ["y"], ins, A, old, extra)
    return _finish(sp, prog, spec, ["y"], ins, A, old, dict(chunk=k, hash_order=horder, container=["list", "tuple", "generator", "iterator"][kind], dtype="float64" if f64 else "float32"))
