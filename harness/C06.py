"""C06 - gradients accumulate; nothing but the requested .grad fields is touched."""
from harness.autojac_common import *
from harness import C02, C20
from torchjd.autojac import backward, mtl_backward

ASSUMPTIONS = [
    "histories of <= 3 backward / mtl_backward calls with retain_graph=True on one symbolic program; between calls the harness performs, by free choice, one of "
    "{nothing, .grad = None, .grad.zero_(), in-place edit of .grad by a symbolic amount}; pre-existing .grad of arbitrary (symbolic) content or absent",
    "memory is modelled: every tensor is a view on a storage object, in-place writes go through views; 'shares memory' = same storage object",
    "the aggregator is uninterpreted and returns, on demand, the SAME cached tensor object at every call (so a .grad that aliases the aggregator's output is exposed)",
    "graphs without retain_grad() tensors",
]


def bounds(tier):
    return dict(calls="<= 3", programs="3 leaves (one not requested, one not requiring grad), intermediate tensor, 2 outputs; trunk + 2 heads for mtl", chunk=[None, 1, 2])


def cases(tier):
    cs = []
    for e in range(4):
        for g in range(2):
            cs.append(dict(name=f"backward_edit{e}_grad{g}", fn="bw", args={}, prefix=[e, g], weight=2))
            cs.append(dict(name=f"mtl_edit{e}_grad{g}", fn="mtl", args={}, prefix=[e, g], weight=2))
    return cs


class CachedAStar(AStar):
    """returns the same tensor object (same storage) with the same symbolic values at every call"""

    def forward(self, matrix):
        self.seen.append(matrix)
        if not self.outs:
            self.outs.append(torch.Tensor._make([named(f"v0_{c}") for c in range(matrix.shape[1])], (matrix.shape[1],), matrix.dtype, "real"))
            self.cached_values = list(self.outs[0]._flat())
        return self.outs[0]


def _storages(prog, A):
    ids = {}
    for n in prog.order:
        ids.setdefault(id(prog[n]._storage), []).append(n)
    for k, o in enumerate(A.outs):
        ids.setdefault(id(o._storage), []).append(f"aggregator_output{k}")
    for k, m in enumerate(A.seen):
        ids.setdefault(id(m._storage), []).append(f"aggregator_input{k}")
    return ids


def _edit(prog, names, e, tag):
    """in-between edit of the .grad of the first requested tensor; returns description"""
    t = prog[names[0]]
    if e == 0 or t.grad is None:
        return "nothing"
    if e == 1:
        t.grad = None
        return "set to None"
    if e == 2:
        t.grad.zero_()
        return "zero_()"
    t.grad += named(f"delta_{tag}")
    return "in-place edit"


def _values(prog):
    return {n: list(prog[n]._flat()) for n in prog.order}


def _same(a, b):
    return all(x is y or z3.is_true(z3.simplify(lift(x).eqz(y))) for x, y in zip(a, b)) and len(a) == len(b)


def _run_history(sp, prog, requested, others, call, A, e, n_calls, kind, spec, extra):
    obs = []
    vals0 = _values(prog)
    hist = []
    pre_terms = {n: list(prog[n].grad._flat()) for n in prog.leaf_names() if prog[n].grad is not None}
    def cex(model=None):
        return dict(kind="accumulate", mode=kind, spec=spec_json(spec), requested=requested, history=hist, n_calls=n_calls, **extra,
                    jac={} if model is None else jac_values(model, prog),
                    pre_values=None if model is None else {n: cex_values(model, g=g)["g"] for n, g in pre_terms.items()},
                    v=None if model is None else cex_values(model, v=[(A.cached_values if isinstance(A, CachedAStar) else o._flat()) for o in A.outs])["v"],
                    delta=None if model is None else cex_values(model, d=[named(f"delta_{c}") for c in range(1, n_calls)])["d"])
    expected = {n: (list(prog[n].grad._flat()) if prog[n].grad is not None else None) for n in requested}
    other_before = {n: (None if prog[n].grad is None else (id(prog[n].grad), list(prog[n].grad._flat()))) for n in others}
    for c in range(n_calls):
        if c > 0:
            hist.append(_edit(prog, requested, e, c))
            n0 = requested[0]
            expected[n0] = list(prog[n0].grad._flat()) if prog[n0].grad is not None else None
        had = {n: prog[n].grad is not None for n in requested}
        gid = {n: id(prog[n].grad._storage) if prog[n].grad is not None else None for n in requested}
        _, failed = valid_call(call, cex, "call_on_valid_arguments_succeeds")
        if failed:
            return obs + failed
        hist.append("call")
        if len(A.seen) <= c:
            return obs + [Ob("requested_grads_receive_the_update", False, cex)]  # the aggregator was not even called: nothing was deposited
        upd = _update(prog, requested, A, kind)
        if upd is None:
            return [Ob("update_identified", False, cex)]
        for n in requested:
            g = grad_list(prog[n])
            if g is None:
                obs.append(Ob("grad_created_or_kept", False, cex))
                continue
            exp = [(expected[n][k] if expected[n] is not None else R(0)) + upd[n][k] for k in range(len(g))]
            obs.append(Ob("grad_is_previous_plus_update", eq_all(g, exp), cex))
            expected[n] = list(g)
            if had[n]:
                # "add to an existing .grad instead of replacing it": the accumulator object the user / optimizer holds is the one that is updated
                obs.append(Ob("existing_grad_updated_in_place", id(prog[n].grad._storage) == gid[n], cex))
            if not had[n]:
                # freshly created: shares memory with no other tensor
                st = _storages(prog, A)
                sharers = [x for x in st.get(id(prog[n].grad._storage), [])]
                other_grads = [m for m in prog.order if m != n and prog[m].grad is not None and prog[m].grad._storage is prog[n].grad._storage]
                obs.append(Ob("fresh_grad_shares_memory_with_nothing", not sharers and not other_grads, cex))
        # nothing else is touched
        vals = _values(prog)
        obs.append(Ob("tensor_values_unchanged", all(_same(vals[n], vals0[n]) for n in prog.order), cex))
        for n in others:
            b = other_before[n]
            g = prog[n].grad
            obs.append(Ob("unrequested_grads_untouched", (g is None) if b is None else (g is not None and id(g) == b[0] and _same(list(g._flat()), b[1])), cex))
        if isinstance(A, CachedAStar):
            obs.append(Ob("aggregator_output_not_mutated", _same(list(A.outs[0]._flat()), A.cached_values), cex))
    return obs


def _update(prog, requested, A, kind):
    """the update of this call, read from the aggregator's answer with the column order the code used (identified by matching the matrix)"""
    M = rows_of(A.seen[-1])
    v = A.outs[-1]._flat() if not isinstance(A, CachedAStar) else A.cached_values
    shared = requested if kind == "backward" else [n for n in requested if n.startswith("p") or n == "us"]
    res = {}
    for pi in itertools.permutations(shared):
        if kind == "backward":
            J = prog.jacobian(["y1", "y2"], list(pi))
        else:
            J = [[x for n in pi for x in (prog.total_jac(n).get(l) or [[R(0)] * prog[n].numel()])[0]] for l in ("loss0", "loss1")]
        if z3.is_true(z3.simplify(mat_eq(M, J))):
            off = 0
            for n in pi:
                k = prog[n].numel()
                res[n] = v[off:off + k]
                off += k
            break
    else:
        return None
    if kind == "mtl":
        for n in requested:
            if n not in res:
                D = prog.total_jac(n)
                acc = [R(0)] * prog[n].numel()
                for l in ("loss0", "loss1"):
                    if l in D and l in {"q0": ["loss0"], "q1": ["loss1"]}.get(n, []):
                        acc = [a + b for a, b in zip(acc, D[l][0])]
                res[n] = acc
    return res


def case_bw(sp):
    set_kernels()
    e = choice(4, "edit_between_calls")
    pre = choice(2, "pre_existing_grad") == 1
    cached = choice(2, "aggregator_returns_cached_tensor") == 1
    n_calls = 2 + choice(2, "n_calls")
    k = [None, 1, 2][choice(3, "chunk")]
    spec = C20._spec_bw()
    # a requested leaf that the outputs do not depend on: its .grad must be created (zeros) / kept, like any other requested one
    unused = choice(2, "unused_leaf_requested") == 1
    spec = dict(leaves=list(spec["leaves"]) + [("u", (2,), True)], ops=spec["ops"])
    horder = choice(2, "set_order")
    prog = Prog(spec, ranks={"a": horder, "b": 1 - horder, "c": 5, "h": 6, "d": 7, "u": 8, "y1": 10, "y2": 11})
    requested, others = ["a", "b"] + (["u"] if unused else []), ["c", "d", "h", "y1", "y2"] + ([] if unused else ["u"])
    strided = pre and choice(2, "pre_existing_grad_is_non_contiguous") == 1
    if pre:
        set_grad(prog["a"], "a", strided=strided)
    set_grad(prog["c"], "c")
    A = CachedAStar() if cached else AStar()
    gen = choice(2, "inputs_as_generator") == 1
    ins = lambda: [prog[n] for n in requested]
    call = lambda: backward([prog["y1"], prog["y2"]], A, inputs=(x for x in ins()) if gen else ins(), retain_graph=True, parallel_chunk_size=k)
    return _run_history(sp, prog, requested, others, call, A, e, n_calls, "backward", spec, dict(chunk=k, pre=pre, cached=cached, edit=e, generator=gen, pre_strided=bool(strided)))


def case_mtl(sp):
    set_kernels()
    e = choice(4, "edit_between_calls")
    pre = choice(2, "pre_existing_grad") == 1
    cached = choice(2, "aggregator_returns_cached_tensor") == 1
    n_calls = 2 + choice(2, "n_calls")
    k = [None, 1, 2][choice(3, "chunk")]
    where_unused = choice(3, "unused_leaf_requested")  # 0: not requested, 1: listed in shared_params, 2: listed in the first task's parameters
    spec = dict(leaves=[("p0", (2,), True), ("p1", (), True), ("q0", (2,), True), ("q1", (), True), ("z", (2,), True), ("d", (2,), False), ("us" if where_unused == 1 else "ut", (2,), True)],
                ops=[dict(name="trunk", inputs=["p0", "p1", "d"], outs=[("f", (2,))], deps={(0, 0), (0, 1), (0, 2)}),
                     dict(name="head0", inputs=["f", "q0"], outs=[("loss0", ())], deps={(0, 0), (0, 1)}),
                     dict(name="head1", inputs=["f", "q1", "z"], outs=[("loss1", ())], deps={(0, 0), (0, 1), (0, 2)})])
    horder = choice(2, "set_order")
    prog = Prog(spec, ranks={"p0": horder, "p1": 1 - horder})
    un = "us" if where_unused == 1 else "ut"
    requested, others = ["q0", "p0", "p1", "q1"] + ([un] if where_unused else []), ["z", "d", "f", "loss0", "loss1"] + ([] if where_unused else [un])
    strided = pre and choice(2, "pre_existing_grad_is_non_contiguous") == 1
    if pre:
        set_grad(prog["q0"], "q0", strided=strided)
        set_grad(prog["p1"], "p1")
    set_grad(prog["z"], "z")
    A = CachedAStar() if cached else AStar()
    call = lambda: mtl_backward([prog["loss0"], prog["loss1"]], prog["f"], A, tasks_params=[[prog["q0"]] + ([prog[un]] if where_unused == 2 else []), [prog["q1"]]],
                                shared_params=[prog["p0"], prog["p1"]] + ([prog[un]] if where_unused == 1 else []), retain_graph=True, parallel_chunk_size=k)
    return _run_history(sp, prog, requested, others, call, A, e, n_calls, "mtl", spec, dict(chunk=k, pre=pre, cached=cached, edit=e, pre_strided=bool(strided)))
