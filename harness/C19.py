"""C19 - NashMTL's state: reset() means fresh, weights are reused as scheduled, max_norm bounds the output."""
from harness.common import *
from torchjd.aggregation import NashMTL

ASSUMPTIONS = [
    "cvxpy's Problem.solve is an UNINTERPRETED DETERMINISTIC function of the parameter values and of the warm-start value of the variable (it may also raise, which NashMTL catches): "
    "convergence / quality of the bargaining solution and 'well-conditioned' are outside the claim; determinism of the kernel is the only assumption",
    "the alphabet is {call(J_a), call(J_b), reset()} with two CONCRETE well-conditioned Gramians (Gram-only matrices, m = 2: all J with that Gramian); "
    "what stays symbolic (decided by z3 for all values) is every value returned by the solver kernel, its success/failure, and max_norm - symbolic Gramians make z3 return unknown (measured)",
    "optim_niter is 1 (quick) or 2 (thorough): the inner successive-approximation loop is bounded by its own parameter",
]


def bounds(tier):
    return dict(history_length="3 (thorough: 4 with one reset)", alphabet=["call(J_a)", "call(J_b)", "reset()"], update_weights_every=[1, 2, 3, 4] if tier == "thorough" else [1, 2, 3],
                m=2, optim_niter="1 (thorough: 2 for histories of length <= 2)", max_norm=["symbolic > 0", "0 (disabled)"], dtype=["float32", "float64"])


def words(n):
    out = []
    for L in range(1, n + 1):
        for w in itertools.product("abr", repeat=L):
            if w[-1] == "r" or w[0] == "r" or "rr" in "".join(w):
                continue
            out.append("".join(w))
    return out


def cases(tier):
    cs = []
    def add(k, w, niter):
        cs.append(dict(name=f"k{k}_{w}_it{niter}", fn="history", args=dict(k=k, word=w, niter=niter), weight=len(w) * niter, **({"budget_s": 900} if tier == "thorough" else {})))
    for k in (1, 2, 3):
        for w in words(3):
            if k == 1 and len(w.replace("r", "")) > 2:
                continue  # three recomputations in a row do not finish within 15 min per word (measured): not claimed in either tier
            add(k, w, 1)
    if tier == "thorough":
        for w in words(3):
            add(4, w, 1)                                   # update_weights_every = 4
            # update_weights_every = 1 with three calls (three recomputations in a row, each conditioned on the previous one's symbolic answer) does not
            # finish within 15 min per word (measured: k1_aba_it1 truncated at 900 s): not claimed; k = 1 is covered for words with <= 2 calls
        for k in (2, 3):
            for w in words(4):
                if len(w) == 4 and w.count("r") == 1:
                    add(k, w, 1)                           # histories of length 4 with one reset
        for k in (1, 2):
            for w in words(2):
                add(k, w, 2)                               # two inner iterations of the solver loop
    return cs


def _solves():
    return len([e for e in torch.EVENTS if e[0] == "kernel" and e[1] == "cvxpy_uninterpreted"])


def case_history(sp, k, word, niter):
    set_kernels()
    m = 2
    # alphabet of two concrete well-conditioned Gramians with rational Frobenius norm (5 and 9); everything the solver returns stays symbolic
    Gs = {"a": [[R(3), R(0)], [R(0), R(4)]], "b": [[R(3), R(2)], [R(2), R(8)]]}
    with_norm = choice(2, "max_norm_enabled") == 0
    dt = [torch.float32, torch.float64][choice(2, "dtype")]
    mx = named("max_norm") if with_norm else R(0)
    if with_norm:
        assume(mx > 0)
    A = NashMTL(n_tasks=m, max_norm=mx, update_weights_every=k, optim_niter=niter)
    obs = []
    def cex(model=None, why=None):
        d = dict(kind="nashmtl_history", k=k, word=word, niter=niter, why=why, dtype=str(dt))
        if model is not None:
            d.update(cex_values(model, Ga=Gs["a"], Gb=Gs["b"], max_norm=mx))
        return d
    since = 0          # calls since construction / reset
    last_alpha = None  # alpha of the last recomputation (before rescaling)
    outs = []
    suffix_start = 0
    for i, ch in enumerate(word):
        if ch == "r":
            A.reset()
            since = 0
            suffix_start = i + 1
            continue
        J = gram_only(Gs[ch], dtype=dt)
        n0 = _solves()
        try:
            out = A(J)
        except (TypeError, ValueError, RuntimeError, AttributeError) as e:
            return obs + [Ob("every_call_succeeds", False, lambda model, e=e: cex(model, f"call {i} raised {type(e).__name__}: {e}"))]
        obs.append(Ob("every_call_succeeds", True))
        w = out._w._flat()
        solved = _solves() - n0
        recompute = since % k == 0
        obs.append(Ob("weights_recomputed_exactly_on_schedule", (solved > 0) == recompute, lambda model, i=i: cex(model, f"call {i}: {solved} solves, since={since}")))
        if recompute:
            last_alpha = [lift(x) for x in A.weighting.prvs_alpha._flat()]
        # the returned weights are the last computed alpha, rescaled when its combination is longer than max_norm
        G = Gs[ch]
        sq = rsum(last_alpha[p] * last_alpha[q] * G[p][q] for p in range(m) for q in range(m))
        if with_norm and bool(sq > mx * mx):
            nrm = sq.sqrt()
            exp = [a / nrm * mx for a in last_alpha]
        else:
            exp = list(last_alpha)
        obs.append(Ob("weights_are_last_computed_alpha_rescaled_to_max_norm", eq_all(w, exp), lambda model, i=i: cex(model, f"call {i}")))
        if with_norm:
            osq = rsum(w[p] * w[q] * G[p][q] for p in range(m) for q in range(m))
            obs.append(Ob("output_norm_at_most_max_norm", (osq <= mx * mx).z(), lambda model, i=i: cex(model, f"call {i}")))
        outs.append((i, w))
        since += 1
    # after reset(): the suffix behaves like a fresh instance
    if "r" in word:
        Bagg = NashMTL(n_tasks=m, max_norm=mx, update_weights_every=k, optim_niter=niter)
        for i, ch in enumerate(word):
            if i < suffix_start:
                continue
            wB = Bagg(gram_only(Gs[ch], dtype=dt))._w._flat()
            wA = [w for (j, w) in outs if j == i][0]
            obs.append(Ob("after_reset_same_as_fresh_instance", eq_all(wA, wB), lambda model, i=i: cex(model, f"suffix call {i}")))
    return obs
