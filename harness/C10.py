"""C10 - the order of the objectives does not matter (row-permutation invariance, with permuted pref/weight/leak)."""
from harness.common import *
from torchjd.aggregation import (UPGrad, DualProj, MGDA, Mean, Sum, Constant, AlignedMTL, IMTLG, ConFIG, CAGrad,
                                 TrimmedMean, Krum, GradDrop)

ASSUMPTIONS = [
    "self-composition: the aggregator is run on J and on the row-permuted J' on the same path; the obligation is A(J') == A(J), "
    "stated on weights as (w' - P w)^T G' (w' - P w) == 0 for Gram-only runs (equality of the two combinations, not of the weights)",
    "no exact score ties: comparisons inside argmin/topk/sort are assumed strict where the property says so (MGDA, Krum); paths with a tie are cut",
    "UPGrad/DualProj: solve_qp is the KKT contract stub for both runs, m = 2 (uniqueness is derived by the solver); m = 3 is outside (solver returns unknown, measured)",
    "IMTL-G / AlignedMTL / CAGrad: spectral kernels answered from the eigenbasis hint of the input domain (Q for J, P Q for J')",
]


def bounds(tier):
    return dict(permutations="the generators (0 1) and (0 1 ... m-1) of S_m; the domains are closed under row permutations, so this covers all m! permutations", m="m <= 3 (Gram-only: mean,sum,constant,mgda[max_iters<=2 at m=2, 1 at m=3],imtlg); m = 2 for upgrad,dualproj,alignedmtl,config (CAGrad is NOT claimed: solver unknown); "
                  "trimmed mean m <= 4 (n <= 2); krum m in {3,4}; graddrop m <= 3, n = 1")


def cases(tier):
    cs = []
    for m in (2, 3):
        for name in ("mean", "sum", "constant", "mgda", "imtlg"):
            for pi in range(len(gens(m))):
                cs.append(dict(name=f"{name}_m{m}_p{pi}", fn="gram", args=dict(agg=name, m=m, pi=pi), weight=m * (3 if name in ("mgda", "imtlg") else 1)))
    for name in ("upgrad", "dualproj", "upgrad_pref", "dualproj_pref", "alignedmtl", "alignedmtl_pref", "cagrad"):
        if name == "cagrad":
            continue  # CAGrad: z3 decides the permuted run only sometimes (3 of 21 obligations unknown at 60 s in the thorough run): not claimed
        cs.append(dict(name=f"{name}_m2_p1", fn="gram", args=dict(agg=name, m=2, pi=0), weight=30 if name == "cagrad" else 6, **({'budget_s': 900} if name == 'cagrad' else {})))
    # m = 3 with a configured preference vector was tried for upgrad_pref / dualproj_pref (candidate formulation: z3 unknown on 24 of 240 queries,
    # 216 s; on the non-conflicting sub-domain with "the vector itself" offered as candidate: no answer within 225 s per case), so it is not claimed
    for m in (2, 3, 4):
        for n in (1, 2):
            if m == 4 and n == 2 and tier != "thorough":
                continue
            cs.append(dict(name=f"tm_m{m}n{n}", fn="tm", args=dict(m=m, n=n), weight=m))
    # n_closest = m-f-2 must be >= 2: with a single nearest neighbour the closest pair ALWAYS ties (precondition unsatisfiable)
    for (m, f, k) in [(4, 0, 1), (4, 0, 2), (4, 0, 3)] + ([(5, 1, 1), (5, 1, 2)] if tier == "thorough" else []):
        for pi in range(2):
            cs.append(dict(name=f"krum_m{m}f{f}k{k}_g{pi}", fn="krum", args=dict(m=m, f=f, k=k, pi=pi), weight=20))
    for m in (2, 3):
        cs.append(dict(name=f"graddrop_m{m}", fn="graddrop", args=dict(m=m, n=1), weight=4))
    cs.append(dict(name="config_m2n2", fn="config", args=dict(m=2, n=2, pref=False), weight=9))
    cs.append(dict(name="config_pref_m2n2", fn="config", args=dict(m=2, n=2, pref=True), weight=9))
    cs.append(dict(name="config_pref_zero_row_m3n2", fn="config_zero_row", args={}, weight=12))
    return cs


import math


def gens(m):
    """generators of the symmetric group S_m: the transposition (0 1) and the m-cycle.  The input domains are closed
    under row permutations, so invariance under the generators (for ALL inputs) implies invariance under all m! permutations."""
    if m < 2:
        return []
    g = [tuple([1, 0] + list(range(2, m)))]
    if m > 2:
        g.append(tuple(list(range(1, m)) + [0]))
    return g


def _perm(m, pi):
    return gens(m)[pi]


def _make(agg, m, perm, permuted):
    """build the aggregator; vectors configured per row are permuted together with the rows"""
    def pv(v):
        return [v[perm[i]] for i in range(m)] if permuted else v
    if agg == "mean":
        return Mean()
    if agg == "sum":
        return Sum()
    if agg == "constant":
        return Constant(T(pv([named(f"cw{i}") for i in range(m)])))
    if agg == "mgda":
        return MGDA(epsilon=named("epsilon"), max_iters=2 if m == 2 else 1)
    if agg == "imtlg":
        return IMTLG()
    if agg in ("upgrad", "dualproj", "upgrad_pref", "dualproj_pref"):
        u = None
        if agg.endswith("_pref"):
            us = [named(f"u{i}") for i in range(m)]
            for x in us:
                assume(x >= 0)
            u = T(pv(us))
        cls = UPGrad if agg.startswith("upgrad") else DualProj
        return cls(pref_vector=u, norm_eps=named("norm_eps"), reg_eps=named("reg_eps"))
    if agg in ("alignedmtl", "alignedmtl_pref"):
        u = None
        if agg.endswith("_pref"):
            us = [named(f"u{i}") for i in range(m)]
            u = T(pv(us))
        return AlignedMTL(pref_vector=u)
    if agg == "cagrad":
        return CAGrad(c=named("c"), norm_eps=named("norm_eps"))
    raise KeyError(agg)


def case_gram(sp, agg, m, pi):
    perm = _perm(m, pi)
    if agg == "imtlg":
        return _imtlg(sp, m, perm)
    spectral = agg in ("upgrad", "dualproj", "upgrad_pref", "dualproj_pref", "alignedmtl", "alignedmtl_pref", "cagrad")
    if spectral:
        G, hint, sig = spectral_gram(m)
        Qp = [hint["Q"][perm[i]] for i in range(m)]
        set_kernels(eigbasis=[hint, dict(Q=Qp, sigma=sig)], no_ties=True)
        if agg == "cagrad":
            sp.sqrt_candidates = [sig[k] / sig[0] for k in range(m)] if bool(sig[0] > 0) else []
    else:
        G = free_gram(m)
        set_kernels(no_ties=True)
    for nm in ("epsilon",):
        if agg == "mgda":
            assume(named(nm) >= 0)
    if agg.startswith(("upgrad", "dualproj")) or agg == "cagrad":
        assume(named("norm_eps") > 0)
    if agg.startswith(("upgrad", "dualproj")):
        assume(named("reg_eps") > 0)
    if agg == "cagrad":
        assume(named("c") >= 0)
    Gp = [[G[perm[i]][perm[j]] for j in range(m)] for i in range(m)]
    w = _make(agg, m, perm, False)(gram_only(G))._w._flat()
    # candidate formulation for the kernels of the second run: the first run's answers, permuted
    firsts = [e for e in torch.EVENTS if e[0] == "kernel" and e[1] in ("solve_qp", "cvxpy_simplex")]
    torch.KERNELS["qp_candidates"] = lambda: [[v[perm[j]] for j in range(m)] for v in (e[3]._flat() for e in firsts if e[1] == "solve_qp")]
    torch.KERNELS["cvx_candidates"] = lambda: [([e[3][perm[j]] for j in range(m)], e[4]) for e in firsts if e[1] == "cvxpy_simplex"]
    w2 = _make(agg, m, perm, True)(gram_only(Gp))._w._flat()
    if any(isinstance(x, Sp) for x in w + w2):
        return [Ob(f"finite_weights[{agg}]", False)]
    delta = [w2[i] - w[perm[i]] for i in range(m)]
    q = rsum(delta[i] * delta[j] * Gp[i][j] for i in range(m) for j in range(m))
    def cex(model):
        return dict(kind="row_perm", agg=agg, perm=list(perm), **cex_values(model, G=G, w=w, w_permuted_run=w2,
                    params={k: named(k) for k in ("epsilon", "norm_eps", "reg_eps", "c") if agg in ("mgda", "cagrad") or agg.startswith(("upgrad", "dualproj"))},
                    vec=[named(f"cw{i}") for i in range(m)] if agg == "constant" else ([named(f"u{i}") for i in range(m)] if agg.endswith("_pref") else None)))
    return [Ob(f"row_permutation_invariant[{agg}]", q.eqz(0), cex)]


def _imtlg(sp, m, perm):
    """IMTL-G: pinv is an arbitrary permutation-EQUIVARIANT kernel: the first call returns a fresh unconstrained
    matrix X, the call on P G P^T returns P X P^T (Moore-Penrose fact pinv(P A P^T) = P pinv(A) P^T, assumed)."""
    set_kernels(no_ties=True)
    G = free_gram(m)
    Gp = [[G[perm[i]][perm[j]] for j in range(m)] for i in range(m)]
    X = [[fresh(f"X{i}{j}") for j in range(m)] for i in range(m)]
    calls = []
    def pinv(A):
        rows = tlist(A)
        calls.append(rows)
        if len(calls) == 1:
            ok = eq_all([x for r in rows for x in r], [x for r in G for x in r])
            res = X
        else:
            ok = eq_all([x for r in rows for x in r], [x for r in Gp for x in r])
            res = [[X[perm[i]][perm[j]] for j in range(m)] for i in range(m)]
        if not sp.proved(ok):
            raise symx.ShimUnsupported("IMTL-G harness: pinv called on something else than the Gramian")
        return T(res, A.dtype)
    torch.KERNELS["pinv"] = pinv
    w = IMTLG()(gram_only(G))._w._flat()
    w2 = IMTLG()(gram_only(Gp))._w._flat()
    if any(isinstance(x, Sp) for x in w + w2):
        return [Ob("finite_weights[imtlg]", False)]
    def cex(model):
        return dict(kind="row_perm", agg="imtlg", perm=list(perm), **cex_values(model, G=G, w=w, w_permuted_run=w2))
    return [Ob("row_permutation_invariant[imtlg]", eq_all([w[perm[i]] for i in range(m)], w2), cex)]


def case_tm(sp, m, n):
    set_kernels()
    Jt, J = entry_matrix(m, n)
    b = choice((m - 1) // 2 + 1, "trim")
    perm = gens(m)[choice(len(gens(m)), "generator")]
    out = TrimmedMean(b)(Jt)._flat()
    out2 = TrimmedMean(b)(T([J[perm[i]] for i in range(m)]))._flat()
    def cex(model):
        return dict(kind="row_perm_entry", agg="trimmed_mean", b=b, perm=list(perm), **cex_values(model, J=J))
    return [Ob("row_permutation_invariant[trimmed_mean]", eq_all(out, out2), cex)]


def case_krum(sp, m, f, k, pi):
    from harness.C16 import _free_dist
    set_kernels(no_ties=True, sort_mode="axiom")
    d = _free_dist(m)
    perm = gens(m)[pi]
    dp = [[d[perm[i]][perm[j]] for j in range(m)] for i in range(m)]
    w = Krum(f, k)(torch.GramOnly(None, m, dist=d))._w._flat()
    w2 = Krum(f, k)(torch.GramOnly(None, m, dist=dp))._w._flat()
    def cex(model):
        return dict(kind="row_perm_krum", f=f, k=k, perm=list(perm), **cex_values(model, dist=d, w=w, w_permuted_run=w2))
    return [Ob("row_permutation_invariant[krum]", eq_all([w[perm[i]] for i in range(m)], w2), cex)]


def case_graddrop(sp, m, n):
    set_kernels()
    Jt, J = entry_matrix(m, n)
    perm = gens(m)[choice(len(gens(m)), "generator")]
    with_leak = choice(2, "leak")
    leak = [named(f"leak{i}") for i in range(m)]
    torch.manual_seed(0)
    out = GradDrop(leak=T(leak) if with_leak else None)(Jt)._flat()
    torch.manual_seed(0)
    out2 = GradDrop(leak=T([leak[perm[i]] for i in range(m)]) if with_leak else None)(T([J[perm[i]] for i in range(m)]))._flat()
    def cex(model):
        return dict(kind="row_perm_entry", agg="graddrop", perm=list(perm), **cex_values(model, J=J, leak=leak if with_leak else None,
                    U=[R(z3.Real(f"U_seed0_{k + 1}")) for k in range(n)]))
    return [Ob("row_permutation_invariant[graddrop]", eq_all(out, out2), cex)]


PYTHAGOREAN_ROWS = [([3, 4], [5, 12]), ([-8, 6], [3, 4]), ([4, -3], [-12, -5]), ([3, 4], [-4, 3])]


def case_config_zero_row(sp):
    """3 x 2 with one exactly-zero row (a task whose loss is flat) at every position and two independent rows: rank 2 without ambiguity; the
    preference vector is SYMBOLIC and travels with the rows.  The two non-zero rows are concrete with rational norms (free rows leave z3 undecided
    at 60 s: three nested square roots), so this case quantifies over all preference vectors, zero-row positions and both generators only."""
    set_kernels()
    m, n = 3, 2
    z = choice(3, "zero_row")
    r0, r1 = PYTHAGOREAN_ROWS[choice(len(PYTHAGOREAN_ROWS), "rows")]
    J = [[R(x) for x in r0], [R(x) for x in r1]]
    J.insert(z, [R(0), R(0)])
    perm = gens(m)[choice(len(gens(m)), "generator")]
    us = [named(f"u{i}") for i in range(m)]
    out = ConFIG(pref_vector=T(us))(T(J))._flat()
    out2 = ConFIG(pref_vector=T([us[perm[i]] for i in range(m)]))(T([J[perm[i]] for i in range(m)]))._flat()
    def cex(model):
        return dict(kind="row_perm_entry", agg="config", perm=list(perm), **cex_values(model, J=J, pref=us))
    return [Ob("row_permutation_invariant[config]", eq_all(out, out2), cex)]


def case_config(sp, m, n, pref):
    set_kernels()
    Jt, J = entry_matrix(m, n)
    perm = (1, 0)
    us = [named(f"u{i}") for i in range(m)]
    # numerically unambiguous rank: full row rank
    det = J[0][0] * J[1][1] - J[0][1] * J[1][0]
    assume(det != 0)
    out = ConFIG(pref_vector=T(us) if pref else None)(Jt)._flat()
    out2 = ConFIG(pref_vector=T([us[perm[i]] for i in range(m)]) if pref else None)(T([J[perm[i]] for i in range(m)]))._flat()
    def cex(model):
        return dict(kind="row_perm_entry", agg="config", perm=list(perm), **cex_values(model, J=J, pref=us if pref else None))
    return [Ob("row_permutation_invariant[config]", eq_all(out, out2), cex)]
