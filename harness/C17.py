"""C17 - impartial aggregators treat every objective alike (IMTL-G, ConFIG, Aligned-MTL)."""
from harness.common import *
from torchjd.aggregation import IMTLG, ConFIG, AlignedMTL

ASSUMPTIONS = [
    "full row rank precondition: det(J J^T) > 0; IMTL-G on the free Gramian domain (pinv of a non-singular matrix = adj/det, decided by the solver), "
    "ConFIG preference vectors: symbolic u >= 0 with sum > 0 (a zero entry asks for cosine zero with that row); default = uniform",
    "ConFIG entry-level (m = n = 2; pinv of a non-singular matrix = adj/det; 2 x 3 is out of the solver's reach), Aligned-MTL on the spectral domain (eigh answered from the eigenbasis, column signs by choice)",
    "Aligned-MTL's tolerance uses torch.finfo().eps = 2^-23 as in the code; 'bounded condition number' is the code's own rank test lambda > tol on every eigenvalue (assumed for the full-rank clause)",
    "IMTL-G m = 3: the clause is stated for matrices on which the normalisation is defined (v.sum() != 0 up to the code's guard), since no weights summing to one exist otherwise",
    "zero matrices: concrete shapes up to 3 x 3 through the same stubs (pinv(0) = 0; eigh(0) = (0, any orthonormal basis))",
]


def bounds(tier):
    return dict(imtlg_m=[1, 2] + ([3] if tier == "thorough" else []), config=dict(m=2, n=[2]), aligned_mtl_m=[1, 2], zero_shapes="m, n in 1..3")


def cases(tier):
    cs = []
    for m in ((1, 2, 3) if tier == "thorough" else (1, 2)):
        cs.append(dict(name=f"imtlg_m{m}", fn="imtlg", args=dict(m=m), weight=m ** 3))
    cs.append(dict(name="imtlg_m3_any_pinv", fn="imtlg_any", args=dict(m=3), weight=6))
    for n in (2,):  # ConFIG 2 x 3: z3 returns unknown within 1500 s on the Penrose/closed-form pinv of a 2 x 3 matrix of unit rows (measured): outside the bound
        for pref in (0, 1):
            cs.append(dict(name=f"config_m2n{n}_pref{pref}", fn="config", args=dict(m=2, n=n, pref=pref), weight=10 * n))
    for m in (1, 2):
        for pref in (0, 1):
            cs.append(dict(name=f"alignedmtl_m{m}_pref{pref}", fn="amtl", args=dict(m=m, pref=pref), weight=6 * m))
    for m in (1, 2, 3):
        for n in (1, 2, 3):
            cs.append(dict(name=f"zero_{m}x{n}", fn="zero", args=dict(m=m, n=n)))
    return cs


def _pd_gram(m):
    G = free_gram(m, nonzero_rows=True)
    assume(torch.linalg._det(G) > 0)
    return G


def case_imtlg(sp, m):
    set_kernels()
    G = _pd_gram(m)
    out = IMTLG()(gram_only(G))
    w = out._w._flat()
    def cex(model):
        return dict(kind="impartial", agg="imtlg", **cex_values(model, G=G, weights_model=w))
    if any(isinstance(x, Sp) for x in w):
        return [Ob("imtlg_finite_weights", False, cex)]
    zero_branch = z3.And(*[x.eqz(0) for x in w])
    Gw = [rsum(G[i][j] * w[j] for j in range(m)) for i in range(m)]
    nrm = [G[i][i].sqrt() for i in range(m)]
    eqproj = z3.And(*[(Gw[i] * nrm[0]).eqz(Gw[0] * nrm[i]) for i in range(1, m)]) if m > 1 else z3.BoolVal(True)
    good = z3.And(rsum(w).eqz(1), eqproj)
    if m <= 2:
        # for one or two independent rows v = pinv(G) d is entrywise positive, so the normalisation is always defined: no exception
        return [Ob("imtlg_weights_sum_to_one_and_equal_projections", good, cex)]
    # m = 3: v = G^-1 d may sum to (relatively) nothing; only then is the zero vector acceptable: |sum v| <= 1e-12 |v|_1
    det = torch.linalg._det(G)
    adj = torch.linalg._adj(G)
    v = [rsum(adj[i][j] * nrm[j] for j in range(m)) / det for i in range(m)]
    vs = rsum(v)
    l1 = rsum(x.abs() for x in v)
    undefined = (vs.abs() <= R(Fraction(1, 10 ** 12)) * l1).z()
    return [Ob("imtlg_weights_sum_to_one_and_equal_projections", z3.Or(good, z3.And(zero_branch, undefined)), cex)]


def case_imtlg_any(sp, m):
    """m = 3 in the quick tier: pinv is an ARBITRARY kernel (fresh unconstrained matrix X), so that the code around it is decided for all values:
    with v = X d, the weights are v / sum(v) unless the normalisation is (relatively) undefined, |sum v| <= 1e-12 |v|_1, and only then zero"""
    set_kernels()
    G = free_gram(m, nonzero_rows=True)
    X = [[fresh(f"X{i}{j}") for j in range(m)] for i in range(m)]
    torch.KERNELS["pinv"] = lambda A: T(X, A.dtype)
    out = IMTLG()(gram_only(G))
    w = out._w._flat()
    nrm = [G[i][i].sqrt() for i in range(m)]
    v = [rsum(X[i][j] * nrm[j] for j in range(m)) for i in range(m)]
    vs = rsum(v)
    def cex(model):
        return dict(kind="impartial", agg="imtlg", any_pinv=True, **cex_values(model, G=G, weights_model=w))
    if any(isinstance(x, Sp) for x in w):
        return [Ob("imtlg_finite_weights", False, cex)]
    l1 = rsum(x.abs() for x in v)
    undefined = (vs.abs() <= R(Fraction(1, 10 ** 12)) * l1).z()
    normalised = z3.And(*[(w[i] * vs).eqz(v[i]) for i in range(m)])
    zero = z3.And(*[x.eqz(0) for x in w])
    return [Ob("imtlg_weights_are_v_over_its_sum_unless_undefined", z3.Or(z3.And(z3.Not(undefined), normalised), z3.And(undefined, zero)), cex)]


def case_config(sp, m, n, pref):
    set_kernels()
    Jt, J = entry_matrix(m, n)
    G = gram_of(J)
    assume(torch.linalg._det(G) > 0)
    u = [named(f"u{i}") for i in range(m)]
    for x in u:
        assume(x >= 0)  # a zero preference asks for cosine zero with that row: part of "proportional to it"
    assume(rsum(u) > 0)
    out = ConFIG(pref_vector=T(u) if pref else None)(Jt)._flat()
    uu = u if pref else [R(1)] * m
    def cex(model):
        return dict(kind="impartial", agg="config", **cex_values(model, J=J, pref=u if pref else None, out_model=out))
    if any(isinstance(x, Sp) for x in out):
        return [Ob("config_finite", False, cex)]
    # cos(out, g_i) proportional to u_i, all positive: <out, g_i> / |g_i| = k u_i with k > 0
    dots = [dot(out, J[i]) for i in range(m)]
    nrm = [G[i][i].sqrt() for i in range(m)]
    obs = [Ob("config_cosines_proportional_to_preferences", z3.And(*[(dots[i] * nrm[0] * uu[0]).eqz(dots[0] * nrm[i] * uu[i]) for i in range(1, m)]), cex),
           Ob("config_cosines_positive", z3.And(*[z3.If((uu[i] > 0).z(), (dots[i] > 0).z(), dots[i].eqz(0)) for i in range(m)]), cex)]
    # |out| = sum_i <g_i, out/|out|>   <=>   |out|^2 = sum_i <g_i, out>
    obs.append(Ob("config_length_is_sum_of_projections", dot(out, out).eqz(rsum(dots)), cex))
    return obs


def case_amtl(sp, m, pref):
    G, hint, sig = spectral_gram(m, positive_definite=True)
    set_kernels(eigbasis=hint, eig_signs=True)
    u = [named(f"u{i}") for i in range(m)]
    for x in u:
        assume(x > 0)
    # the code's rank test must accept every eigenvalue (bounded condition number)
    eps23 = R(Fraction(1, 2 ** 23))
    assume(sig[m - 1] * sig[m - 1] > sig[0] * sig[0] * m * eps23)
    out = AlignedMTL(pref_vector=T(u) if pref else None)(gram_only(G))
    a = out._w._flat()
    uu = u if pref else [R(Fraction(1, m))] * m
    def cex(model):
        return dict(kind="impartial", agg="alignedmtl", **cex_values(model, G=G, pref=u if pref else None, weights_model=a))
    # alpha = B u with B symmetric, B G B^T = lambda_min I  (re-balanced rows B J are orthogonal, all of length sigma_min)
    # recover B column by column is not observable; equivalent statement on alpha for ALL u: alpha^T G alpha = lambda_min |u|^2 and linearity in u.
    lam_min = sig[m - 1] * sig[m - 1]
    q = rsum(a[i] * a[j] * G[i][j] for i in range(m) for j in range(m))
    obs = [Ob("alignedmtl_output_norm_is_sigma_min_times_pref_norm", q.eqz(lam_min * rsum(x * x for x in uu)), cex)]
    # B = sqrt(lam_min) * G^(-1/2):  alpha = B u  <=>  G^(1/2) alpha = sqrt(lam_min) u ; squared per eigen-direction: (Q^T G alpha)_k = sigma_k sigma_min (Q^T u)_k
    Q = hint["Q"]
    Ga = [rsum(G[i][j] * a[j] for j in range(m)) for i in range(m)]
    for k in range(m):
        lhs = rsum(Q[i][k] * Ga[i] for i in range(m))
        rhs = sig[k] * sig[m - 1] * rsum(Q[i][k] * uu[i] for i in range(m))
        obs.append(Ob("alignedmtl_is_pref_weighted_combination_of_rebalanced_rows", lhs.eqz(rhs), cex))
    return obs


def case_zero(sp, m, n):
    set_kernels()
    Z = torch.zeros(m, n)
    obs = []
    for name, A in [(("imtlg", IMTLG()), ("config", ConFIG()), ("alignedmtl", AlignedMTL()))[choice(3, "aggregator")]]:
        try:
            out = A(Z)
            fl = out._flat()
            ok = tuple(out.shape) == (n,) and all(isinstance(x, R) and x.conc and x.frac() == 0 for x in fl)
        except (symx.Inconclusive, symx.PathAbort):
            raise
        except Exception as e:  # noqa
            ok = False
        obs.append(Ob(f"zero_matrix_gives_zero_vector[{name}]", ok, lambda model, name=name: dict(kind="zero_matrix", agg=name, m=m, n=n)))
    return obs
