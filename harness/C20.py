"""C20 - a call rejected for its arguments changes nothing."""
from harness.autojac_common import *
from torchjd.autojac import backward, mtl_backward

ASSUMPTIONS = [
    "every kind of invalid argument listed by the property, at every position among valid arguments, with every iteration order of the sets torchjd builds "
    "(tensor hashes by free choice); programs: 3 leaves with optional pre-existing .grad, one intermediate tensor, two outputs / a trunk with two heads",
    "obligation: if the call raises (any exception type), no .grad field was assigned and no .grad storage was written (event log of the environment model + value snapshots)",
    "the tensor that does not require grad is tried both as a plain tensor and as a FROZEN torch.nn.Parameter (model: a Tensor subclass; replay: nn.Parameter(requires_grad=False))",
    "the aggregator-rejection clause applies to backward only (as stated by the property); in mtl_backward the task-specific gradients are accumulated before the aggregator runs",
]


def bounds(tier):
    return dict(backward=["chunk<=0", "empty tensors", "duplicate tensors", "non-leaf input at every position", "input not requiring grad at every position", "aggregator raises"],
                mtl_backward=["chunk<=0", "empty features", "empty losses", "non-scalar loss at every position", "len(losses)!=len(tasks_params)", "shared/task overlap",
                              "duplicate parameter", "non-leaf parameter in every task / in shared_params", "parameter not requiring grad"])


def cases(tier):
    cs = [dict(name=f"backward_{k}", fn="bw", args=dict(kind=k), weight=2) for k in
          ("chunk", "empty", "duplicate", "nonleaf_input", "no_grad_input", "aggregator_raises")]
    cs += [dict(name=f"mtl_{k}", fn="mtl", args=dict(kind=k), weight=2) for k in
           ("chunk", "empty_features", "empty_losses", "non_scalar_loss", "length_mismatch", "overlap", "duplicate_param", "nonleaf_task_param",
            "nonleaf_shared_param", "no_grad_param")]
    return cs


def snapshot(prog):
    snap = {}
    for n in prog.order:
        t = prog[n]
        snap[n] = (None if t.grad is None else (id(t.grad), id(t.grad._storage), list(t.grad._flat())), list(t._flat()))
    return snap


def unchanged(prog, snap):
    for n in prog.order:
        t = prog[n]
        g0, v0 = snap[n]
        if (t.grad is None) != (g0 is None):
            return False, f".grad of {n} was {'created' if g0 is None else 'removed'}"
        if g0 is not None:
            if id(t.grad) != g0[0] or id(t.grad._storage) != g0[1]:
                return False, f".grad of {n} was replaced"
            if any(a is not b for a, b in zip(t.grad._flat(), g0[2])):
                return False, f".grad of {n} was modified"
        if any(a is not b for a, b in zip(t._flat(), v0)):
            return False, f"value of {n} was modified"
    return True, ""


def _spec_bw():
    return dict(leaves=[("a", (2,), True), ("b", (), True), ("c", (2,), True), ("d", (2,), False)],
                ops=[dict(name="fh", inputs=["a", "c"], outs=[("h", (2,))], deps={(0, 0), (0, 1)}),
                     dict(name="f1", inputs=["h", "b", "d"], outs=[("y1", (2,))], deps={(0, 0), (0, 1), (0, 2)}),
                     dict(name="f2", inputs=["a", "h"], outs=[("y2", ())], deps={(0, 0), (0, 1)})])


def _ranks(names, label):
    ps = perms(len(names))
    p = ps[choice(len(ps), label)]
    return {n: p[i] for i, n in enumerate(names)}


def case_bw(sp, kind):
    set_kernels()
    spec = _spec_bw()
    cand = ["a", "b", "c", "h", "d"]
    prog = Prog(spec, ranks={**_ranks(cand, "set_order"), "y1": 10, "y2": 11})
    if choice(2, "existing_grad") == 1:
        set_grad(prog["a"], "a")
        set_grad(prog["c"], "c")
    A = AStar()
    outs = [prog["y1"], prog["y2"]]
    kw = dict(inputs=[prog["a"], prog["b"], prog["c"]])
    descr = dict(kind="rejected_backward", what=kind, spec=spec_json(spec))
    if kind == "chunk":
        kw["parallel_chunk_size"] = [0, -1][choice(2, "bad_chunk")]
    elif kind == "empty":
        outs = []
    elif kind == "duplicate":
        outs = [[prog["y1"], prog["y1"]], [prog["y1"], prog["y2"], prog["y1"]]][choice(2, "dup")]
    elif kind in ("nonleaf_input", "no_grad_input"):
        bad = prog["h"] if kind == "nonleaf_input" else prog["d"]
        valid = [["a"], ["a", "b"], ["a", "b", "c"]][choice(3, "valid_inputs")]
        pos = choice(len(valid) + 1, "position")
        if kind == "no_grad_input" and choice(2, "frozen_nn_parameter") == 1:
            bad.__class__ = torch.nn.Parameter  # a frozen nn.Parameter is refused like any tensor that does not require grad
            descr["as_parameter"] = True
        lst = [prog[n] for n in valid]
        lst.insert(pos, bad)
        kw["inputs"] = lst
        descr.update(valid=valid, position=pos)
    elif kind == "aggregator_raises":
        A = AStar(raise_error=ValueError("the aggregator rejects this Jacobian"))
    descr["hash_ranks"] = {n: prog[n]._h for n in cand}
    snap = snapshot(prog)
    del torch.EVENTS[:]
    try:
        backward(outs, A, **kw)
        raised = None
    except (ValueError, RuntimeError, TypeError) as e:
        raised = e
    if raised is None:
        return [Ob(f"backward_rejects[{kind}]", False, lambda model: dict(descr, expect="raise"))]
    ok, why = unchanged(prog, snap)
    return [Ob(f"backward_rejection_changes_nothing[{kind}]", ok, lambda model: dict(descr, expect="no_change", model_says=why))]


def _spec_mtl():
    return dict(leaves=[("p0", (2,), True), ("p1", (), True), ("q0", (2,), True), ("q1", (), True), ("d", (2,), False)],
                ops=[dict(name="trunk", inputs=["p0", "p1"], outs=[("f", (2,))], deps={(0, 0), (0, 1)}),
                     dict(name="mid0", inputs=["f", "q0"], outs=[("m0", (2,))], deps={(0, 0), (0, 1)}),
                     dict(name="head0", inputs=["m0", "d"], outs=[("loss0", ())], deps={(0, 0), (0, 1)}),
                     dict(name="head1", inputs=["f", "q1"], outs=[("loss1", ())], deps={(0, 0), (0, 1)}),
                     dict(name="vec", inputs=["f"], outs=[("lossv", (2,))], deps={(0, 0)})])


def case_mtl(sp, kind):
    set_kernels()
    spec = _spec_mtl()
    cand = ["p0", "p1", "q0", "q1", "m0", "d"]
    prog = Prog(spec, ranks={**_ranks(cand, "set_order"), "f": 20, "loss0": 21, "loss1": 22, "lossv": 23})
    if choice(2, "existing_grad") == 1:
        set_grad(prog["p0"], "p0")
        set_grad(prog["q0"], "q0")
    A = AStar()
    losses = [prog["loss0"], prog["loss1"]]
    feats = [prog["f"]]
    tp = [[prog["q0"]], [prog["q1"]]]
    shp = [prog["p0"], prog["p1"]]
    kw = {}
    descr = dict(kind="rejected_mtl", what=kind, spec=spec_json(spec))
    if kind == "chunk":
        kw["parallel_chunk_size"] = [0, -2][choice(2, "bad_chunk")]
    elif kind == "empty_features":
        feats = []
    elif kind == "empty_losses":
        losses, tp = [], []
    elif kind == "non_scalar_loss":
        pos = choice(2, "position")
        losses[pos] = prog["lossv"]
        descr["position"] = pos
    elif kind == "length_mismatch":
        tp = [[[prog["q0"]]], [[prog["q0"]], [prog["q1"]], []]][choice(2, "mismatch")]
    elif kind == "overlap":
        which = choice(3, "overlap_kind")
        if which == 0:
            tp = [[prog["q0"]], [prog["q1"], prog["p1"]]]
        elif which == 1:
            tp = [[prog["q0"], prog["p1"]], [prog["q1"]]]  # the overlap sits in a task that is NOT the last one
        else:
            shp = [prog["p0"], prog["p1"], prog["q0"]]
        descr["which"] = which
    elif kind == "duplicate_param":
        which = choice(2, "dup_kind")
        if which == 0:
            tp = [[prog["q0"]], [prog["q1"], prog["q1"]]]
        else:
            shp = [prog["p0"], prog["p1"], prog["p0"]]
        descr["which"] = which
    elif kind == "nonleaf_task_param":
        t = choice(2, "task")
        pos = choice(2, "position")
        tp[t].insert(pos, prog["m0"])
        descr.update(task=t, position=pos)
    elif kind == "nonleaf_shared_param":
        pos = choice(3, "position")
        shp.insert(pos, prog["f"] if False else prog["m0"])
        descr.update(position=pos)
    elif kind == "no_grad_param":
        if choice(2, "frozen_nn_parameter") == 1:
            prog["d"].__class__ = torch.nn.Parameter
            descr["as_parameter"] = True
        which = choice(2, "where")
        if which == 0:
            tp[choice(2, "task")].append(prog["d"])
        else:
            shp.append(prog["d"])
        descr["which"] = which
    descr["hash_ranks"] = {n: prog[n]._h for n in cand}
    snap = snapshot(prog)
    try:
        mtl_backward(losses, feats, A, tasks_params=tp, shared_params=shp, **kw)
        raised = None
    except (ValueError, RuntimeError, TypeError) as e:
        raised = e
    if raised is None:
        return [Ob(f"mtl_backward_rejects[{kind}]", False, lambda model: dict(descr, expect="raise"))]
    ok, why = unchanged(prog, snap)
    return [Ob(f"mtl_backward_rejection_changes_nothing[{kind}]", ok, lambda model: dict(descr, expect="no_change", model_says=why))]
