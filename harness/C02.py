"""C02 - mtl_backward(): own-task gradients for heads, aggregated Jacobian for the trunk."""
from harness.autojac_common import *
from torchjd.autojac import mtl_backward

ASSUMPTIONS = [
    "trunk/heads programs with symbolic local Jacobians: 2 shared leaves, 1-2 feature tensors (not depending on each other), 2-3 scalar losses, "
    "own / shared-between-tasks / absent task parameters; explicit or defaulted parameter lists; all set orders of the shared parameters; chunk sizes by choice",
    "uninterpreted aggregator (fresh output, records its input): the row order is observed exactly",
    "oracle: forward accumulation of path products; row i = sum over features f of (d loss_i / d f)(d f / d shared)",
]


def bounds(tier):
    S = SHAPES_T if tier == "thorough" else SHAPES_Q
    return dict(shared_leaves=2, features=[1, 2], tasks=[2, 3], shapes=[list(s) for s in S], chunk=[None, 1, 2, 3], param_lists=["explicit", "defaulted"])


def cases(tier):
    S = SHAPES_T if tier == "thorough" else SHAPES_Q
    cs = []
    for ip in range(len(S)):
        for i1 in range(len(S)):
            cs.append(dict(name=f"mtl_layout_{ip}_{i1}", fn="mtl", args=dict(tier=tier, family="layout"), prefix=[ip, i1], weight=2))
    for tf in range(2):
        for nt in range(2):
            for sq in range(2):
                cs.append(dict(name=f"mtl_structure_{tf}{nt}{sq}", fn="mtl", args=dict(tier=tier, family="structure"), prefix=[tf, nt, sq], weight=4 if tf and nt else 1))
    for kind in range(4):
        for one in range(2):
            cs.append(dict(name=f"mtl_containers_{kind}_{one}", fn="mtl", args=dict(tier=tier, family="containers"), prefix=[kind, one], weight=2))
    return cs


def make_spec(sp, tier, family, own_fixed=None):
    """family 'layout': all tensor shapes vary, head structure fixed; family 'structure': shapes fixed, head structure varies"""
    S = SHAPES_T if tier == "thorough" else SHAPES_Q
    if family == "containers":
        # parameter lists given as list / tuple / one-shot generator / iterator; one task (a single-row Jacobian) or two
        two_feats = choice(2, "two_features") == 1
        n_tasks = 1 if symx.space().notes.get("single_task") else 2
        shared_q = False
        sp0, sf1, sf2 = (), (2,), ((1, 2) if two_feats else None)
    elif family == "layout":
        sp0 = S[choice(len(S), "shape_p0")]
        sf1 = S[choice(len(S), "shape_f1")]
        two_feats = choice(2, "two_features") == 1
        sf2 = S[choice(len(S), "shape_f2")] if two_feats else None
        n_tasks = 2
        shared_q = False
    else:
        two_feats = choice(2, "two_features") == 1
        n_tasks = 2 + choice(2, "n_tasks")
        shared_q = choice(2, "param_shared_by_tasks_0_1") == 1
        sp0, sf1, sf2 = (), (2,), ((1, 2) if two_feats else None)
    leaves = [("p0", sp0, True), ("p1", (2,), True)]
    ops = [dict(name="trunk1", inputs=["p0", "p1"], outs=[("f1", sf1)], deps={(0, 0), (0, 1)})]
    feats = ["f1"]
    if two_feats:
        ops.append(dict(name="trunk2", inputs=["p0"], outs=[("f2", sf2)], deps={(0, 0)}))
        feats.append("f2")
    if shared_q:
        leaves.append(("q01", (2,), True))
    tasks_params = []
    for t in range(n_tasks):
        if family == "containers":
            own = [2, 1][t]
            fs = ["f1", "f2"] if two_feats else ["f1"]
        elif family == "layout":
            own = [2, 1][t]
            fs = (["f1"], ["f1", "f2"])[t] if two_feats else ["f1"]
        else:
            own = own_fixed[t] if own_fixed is not None else choice(3, f"own_param_{t}")  # 0: none, 1: 0-d, 2: (2,)
            fs = [["f1"], ["f2"], ["f1", "f2"]][choice(3, f"head_feats_{t}")] if two_feats else ["f1"]
        ins = list(fs)
        params = []
        if own:
            leaves.append((f"q{t}", () if own == 1 else (2,), True))
            ins.append(f"q{t}")
            params.append(f"q{t}")
        if shared_q and t < 2:
            ins.append("q01")
            params.append("q01")
        ops.append(dict(name=f"head{t}", inputs=ins, outs=[(f"loss{t}", ())], deps={(0, i) for i in range(len(ins))}))
        tasks_params.append(params)
    return dict(leaves=leaves, ops=ops), feats, n_tasks, tasks_params


def case_mtl(sp, tier, family):
    set_kernels()
    kind = 0
    if family == "containers":
        kind = choice(4, "container_kind")
        sp.notes["single_task"] = choice(2, "single_task") == 1
    spec, feats, n_tasks, tasks_params = make_spec(sp, tier, family)
    horder = choice(2, "set_order_shared")
    ranks = {"p0": horder, "p1": 1 - horder}
    for i, (n, _, _) in enumerate(spec["leaves"]):
        ranks.setdefault(n, 20 + i)
    for i, o in enumerate(spec["ops"]):
        for n, _ in o["outs"]:
            ranks[n] = 40 + i
    f64 = family == "containers" and choice(2, "float64_program") == 1
    if f64:
        torch.KERNELS["lossy_casts"] = True  # a float64 -> float32 conversion is modelled as an arbitrary perturbation, not as the identity
    prog = Prog(spec, ranks=ranks, dtype=torch.float64 if f64 else None)
    explicit = True if family == "containers" else choice(2, "explicit_lists") == 0
    ks = [None, 1, 2, 3] if family == "layout" else [None, 2]
    k = ks[choice(len(ks), "chunk")]
    losses = [f"loss{t}" for t in range(n_tasks)]
    old = {n: None for n in prog.leaf_names()}
    old["p1"] = set_grad(prog["p1"], "p1")
    if "q0" in prog.t:
        old["q0"] = set_grad(prog["q0"], "q0")
    A = AStar()
    kw = {}
    empty_shared = family == "containers" and choice(2, "shared_params_empty") == 1
    if explicit:
        from harness.C01 import as_container
        kw = dict(tasks_params=[as_container([prog[n] for n in ps], kind) for ps in tasks_params], shared_params=as_container([] if empty_shared else [prog["p0"], prog["p1"]], kind))
    def cex(model):
        return dict(kind="autojac_mtl", spec=spec_json(spec), losses=losses, features=feats, tasks_params=tasks_params if explicit else None,
                    shared_params=([] if empty_shared else ["p0", "p1"]) if explicit else None, expected_tasks_params=tasks_params, expected_shared=[] if empty_shared else ["p0", "p1"],
                    jac=jac_values(model, prog), v=cex_values(model, v=[o._flat() for o in A.outs])["v"], chunk=k, container=["list", "tuple", "generator", "iterator"][kind], dtype="float64" if f64 else "float32",
                    old={kk: (cex_values(model, g=g)["g"] if g is not None else None) for kk, g in old.items()})
    feats_arg = [prog[f] for f in feats] if len(feats) > 1 or choice(2, "features_as_list") else prog[feats[0]]
    _, failed = valid_call(lambda: mtl_backward([prog[n] for n in losses], feats_arg, A, parallel_chunk_size=k, **kw), cex, "mtl_backward_on_valid_arguments_succeeds")
    if failed:
        return failed
    obs = []
    # --- task specific parameters
    all_task = sorted({n for ps in tasks_params for n in ps})
    for n in all_task:
        D = prog.total_jac(n)
        exp = [R(0)] * prog[n].numel()
        for t in range(n_tasks):
            if n in tasks_params[t]:
                row = D.get(f"loss{t}")
                if row is not None:
                    exp = [a + b for a, b in zip(exp, row[0])]
        g = grad_list(prog[n])
        if g is None:
            obs.append(Ob("task_param_grad_created", False, cex))
            continue
        before = old.get(n)
        obs.append(Ob("task_param_receives_sum_of_own_task_gradients", eq_all(g, [(before[c] if before else R(0)) + exp[c] for c in range(len(exp))]), cex))
    # --- shared parameters
    shared = ["p0", "p1"]
    if empty_shared:
        # a frozen trunk: nothing to aggregate, the shared leaves keep their .grad
        same = all((grad_list(prog[n]) is None) if old.get(n) is None else z3.is_true(z3.simplify(eq_all(grad_list(prog[n]), old[n]))) for n in shared)
        return obs + [Ob("frozen_trunk_leaves_shared_grads_alone", bool(same) and len(A.seen) == 0, cex)]
    if len(A.seen) != 1:
        return obs + [Ob("aggregator_called_once", False, cex)]
    M = rows_of(A.seen[0])
    v = A.outs[0]._flat()
    Dsh = {n: prog.total_jac(n) for n in shared}
    Df = {f: prog.total_jac(f) for f in feats}
    alts = []
    for pi in itertools.permutations(shared):
        rows = []
        for t in range(n_tasks):
            row = []
            for n in pi:
                acc = [R(0)] * prog[n].numel()
                for f in feats:
                    gl = Df[f].get(f"loss{t}")      # 1 x numel(f)
                    df = Dsh[n].get(f)              # numel(f) x numel(n)
                    if gl is None or df is None:
                        continue
                    contrib = vecmat(gl[0], df)
                    acc = [a + b for a, b in zip(acc, contrib)]
                row.extend(acc)
            rows.append(row)
        conds = [mat_eq(M, rows)]
        off = 0
        for n in pi:
            kk = prog[n].numel()
            sl = v[off:off + kk]
            off += kk
            g = grad_list(prog[n])
            before = old.get(n)
            conds.append(z3.BoolVal(False) if g is None else eq_all(g, [(before[c] if before else R(0)) + sl[c] for c in range(kk)]))
        alts.append(z3.And(*conds))
    obs.append(Ob("shared_jacobian_rows_are_tasks_in_order_and_slices_match", z3.Or(*alts), cex))
    return obs
