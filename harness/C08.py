"""C08 - weighted aggregators stay in the row span and only look at the Gramian; column layout never matters."""
from harness.common import *
from harness.C16 import _free_dist
from harness import C11
from torchjd.aggregation import ConFIG, TrimmedMean

ASSUMPTIONS = [
    "row span + Gramian-only: each weighted aggregator is executed on an OPAQUE m x n matrix that answers only J @ J.T, row norms, pairwise row distances and w @ J "
    "(any other read raises): completing the run IS the proof that the output is a combination w @ J of the rows with weights computed from the Gramian alone "
    "(Krum: from the pairwise distances, which are a function of the Gramian). A(J Q) = A(J) Q then follows from (J Q)(J Q)^T = J J^T, discharged as a solver lemma for n <= 3",
    "ConFIG reads the rows (unit vectors) and is handled entry-level: A(J Q) = A(J) Q for a symbolic rotation Q (n = 2), with pinv as a kernel that is equivariant under "
    "right-multiplication by an orthogonal matrix (Moore-Penrose fact pinv(U Q) = Q^T pinv(U), assumed) - 'matrices whose numerical rank is unambiguous'",
    "column permutation / zero-column insertion for the deterministic non-Gramian aggregators TrimmedMean and ConFIG by self-composition on entry-level matrices; "
    "for Gram-only aggregators they are instances of the orthogonal-invariance clause (permutation matrices / isometric embeddings)",
]


def bounds(tier):
    return dict(gram_only_m=[1, 2] + ([3] if tier == "thorough" else []), lemma_n=[1, 2, 3], config=dict(m=2, n=2), trimmed_mean=dict(m="<=3", n="<=3"))


def cases(tier):
    cs = []
    for a in C11.WEIGHTED:
        for m in ((1, 2, 3) if (tier == "thorough" or a in ("imtlg", "mean", "sum", "constant", "random", "pcgrad", "mgda")) else (1, 2)):
            if a == "krum" and m < 3 or (a in ("cagrad", "alignedmtl") and m == 3):
                continue
            cs.append(dict(name=f"gram_only_{a}_m{m}", fn="gram_only", args=dict(agg=a, m=m), weight=m * m * (4 if a in C11.SPECTRAL else 1)))
    cs.append(dict(name="gram_only_krum_m3", fn="gram_only", args=dict(agg="krum", m=3), weight=3))
    for a in C11.WEIGHTED:
        m = 3 if a == "krum" else 2
        cs.append(dict(name=f"zero_columns_{a}_m{m}", fn="zero_columns", args=dict(agg=a, m=m), weight=4 * (4 if a in C11.SPECTRAL else 1)))
    for n in (1, 2, 3):
        for m in (1, 2, 3):
            cs.append(dict(name=f"lemma_gramian_invariant_{m}x{n}", fn="lemma", args=dict(m=m, n=n), weight=n))
    cs.append(dict(name="config_rotation", fn="config_rot", args={}, weight=8))
    for m in (1, 2, 3):
        for n in (2, 3):
            cs.append(dict(name=f"tm_columns_{m}x{n}", fn="columns", args=dict(agg="trimmed_mean", m=m, n=n), weight=m * n))
    cs.append(dict(name="config_columns_2x2", fn="columns", args=dict(agg="config", m=2, n=2), weight=10))
    cs.append(dict(name="config_columns_1x2", fn="columns", args=dict(agg="config", m=1, n=2), weight=3))
    return cs


def case_gram_only(sp, agg, m):
    set_kernels(sort_mode="axiom")
    J, G, extra = C11.domain(sp, agg, m, n=m + 1)
    C11.assume_params(agg, m)
    try:
        out = C11.make(agg, m)(J)
    except torch.GramOnlyRead as e:
        return [Ob(f"reads_only_the_gramian[{agg}]", False, lambda model, e=e: dict(kind="gram_only_read", agg=agg, m=m, what=str(e)))]
    ok = isinstance(out, torch.RowComb) and out._J is J and tuple(out._w.shape) == (m,)
    return [Ob(f"output_is_a_combination_of_the_rows_with_gramian_only_weights[{agg}]", ok, lambda model: dict(kind="gram_only_read", agg=agg, m=m, what="output is not w @ J"))]


def case_zero_columns(sp, agg, m):
    """appending all-zero columns leaves the Gramian unchanged; the weights must therefore not depend on the number of columns either:
    the same Gram-only matrix is presented with n = m and with n = m + 200000 columns"""
    set_kernels(sort_mode="axiom")
    J, G, extra = C11.domain(sp, agg, m, n=m)
    C11.assume_params(agg, m)
    A = C11.make(agg, m)
    torch.manual_seed(0)
    w1 = A(J)._w._flat()
    firsts = [e for e in torch.EVENTS if e[0] == "kernel" and e[1] in ("solve_qp", "cvxpy_simplex")]
    torch.KERNELS["qp_candidates"] = lambda: [list(e[3]._flat()) for e in firsts if e[1] == "solve_qp"]
    torch.KERNELS["cvx_candidates"] = lambda: [(list(e[3]), e[4]) for e in firsts if e[1] == "cvxpy_simplex"]
    # far more columns than any block size a column-wise implementation would use (2**16 ...): the Gramian, hence the weights, are the same
    n2 = m + 200000
    J2 = torch.GramOnly(J._G, n2, dist=J._dist)
    def cex(model):
        d = dict(kind="zero_columns", agg=agg, m=m, n1=m, n2=n2, params=C11.params_cex(model, agg, m))
        d.update(cex_values(model, G=G) if G is not None else cex_values(model, dist=extra))
        return d
    torch.manual_seed(0)
    try:
        w2 = A(J2)._w._flat()
    except torch.GramOnlyRead as e:
        return [Ob(f"weights_independent_of_the_number_of_columns[{agg}]", False, lambda model, e=e: dict(cex(model), what=str(e)))]
    if any(isinstance(x, Sp) for x in w1 + w2):
        return [Ob(f"finite[{agg}]", False, cex)]
    if G is None:
        return [Ob(f"weights_independent_of_the_number_of_columns[{agg}]", eq_all(w1, w2), cex)]
    delta = [a - b for a, b in zip(w1, w2)]
    q = rsum(delta[i] * delta[j] * G[i][j] for i in range(m) for j in range(m))
    return [Ob(f"weights_independent_of_the_number_of_columns[{agg}]", q.eqz(0), cex)]


def case_lemma(sp, m, n):
    """(J Q)(J Q)^T == J J^T for orthogonal Q (rotation, optionally composed with a reflection / permutation by choice)"""
    set_kernels()
    _, J = entry_matrix(m, n)
    Q, _ = rotation(n, "r")
    if n > 1 and choice(2, "reflect") == 1:
        Q = [[-x if j == 0 else x for j, x in enumerate(r)] for r in Q]
    JQ = matmul(J, Q)
    G1, G2 = gram_of(J), gram_of(JQ)
    return [Ob("gramian_invariant_under_orthogonal_change_of_coordinates", eq_all([x for r in G1 for x in r], [x for r in G2 for x in r]))]


def equivariant_pinv(sp, relations):
    """pinv as an ARBITRARY kernel that respects the stated Moore-Penrose identities: the first call returns a fresh unconstrained matrix X0 for its
    argument U0; a later call whose argument the solver recognises as f(U0) returns g(X0) for the matching (f, g) in `relations`."""
    state = {"args": []}
    def pinv(A):
        rows = tlist(A)
        state["args"].append(rows)
        if "U0" not in state:
            state["U0"] = rows
            state["X0"] = [[fresh(f"X{i}{j}") for j in range(A.shape[0])] for i in range(A.shape[1])]
            return T(state["X0"], A.dtype)
        flat = [x for r in rows for x in r]
        for f, g in relations:
            cand = f(state["U0"])
            if len(cand) == len(rows) and len(cand[0]) == len(rows[0]) and sp.proved(eq_all(flat, [x for r in cand for x in r]), timeout_ms=10000):
                return T(g(state["X0"]), A.dtype)
        # an argument that is not related to the first one by any stated identity: the kernel may answer anything (fresh matrix)
        return T([[fresh(f"Y{len(state)}_{i}{j}") for j in range(A.shape[0])] for i in range(A.shape[1])], A.dtype)
    torch.KERNELS["pinv"] = pinv
    return state


def case_config_rot(sp):
    set_kernels()
    m = n = 2
    Jt, J = entry_matrix(m, n)
    Q, _ = rotation(2, "r")
    JQ = matmul(J, Q)
    pref = choice(2, "pref")
    u = [named(f"u{i}") for i in range(m)]
    equivariant_pinv(sp, [(lambda U0: matmul(U0, Q), lambda X0: matmul(transpose(Q), X0))])
    A = ConFIG(pref_vector=T(u) if pref else None)
    out = A(Jt)._flat()
    out2 = A(T(JQ))._flat()
    def cex(model):
        return dict(kind="orthogonal", agg="config", **cex_values(model, J=J, Q=Q, pref=u if pref else None))
    if any(isinstance(x, Sp) for x in out + out2):
        return [Ob("finite[config]", False, cex)]
    return [Ob("config_commutes_with_rotations", eq_all(out2, vecmat(out, Q)), cex)]


def case_columns(sp, agg, m, n):
    set_kernels()
    Jt, J = entry_matrix(m, n)
    mk = (lambda: TrimmedMean(choice((m - 1) // 2 + 1, "trim"))) if agg == "trimmed_mean" else (lambda: ConFIG())
    A = mk()
    perm = pick_perm(n, "column_permutation")
    pos = choice(n + 1, "zero_column_position")
    if agg == "config":
        equivariant_pinv(sp, [(lambda U0: [[r[perm[j]] for j in range(n)] for r in U0], lambda X0: [X0[perm[j]] for j in range(n)]),
                              (lambda U0: [r[:pos] + [R(0)] + r[pos:] for r in U0], lambda X0: X0[:pos] + [[R(0)] * m] + X0[pos:])])
    out = A(Jt)._flat()
    Jp = [[r[perm[j]] for j in range(n)] for r in J]
    outp = A(T(Jp))._flat()
    Jz = [r[:pos] + [R(0)] + r[pos:] for r in J]
    outz = A(T(Jz))._flat()
    def cex(model):
        return dict(kind="columns", agg=agg, perm=list(perm), zero_pos=pos, **cex_values(model, J=J))
    if any(isinstance(x, Sp) for x in out + outp + outz):
        return [Ob(f"finite[{agg}]", False, cex)]
    return [Ob(f"commutes_with_column_permutation[{agg}]", eq_all(outp, [out[perm[j]] for j in range(n)]), cex),
            Ob(f"commutes_with_zero_column_insertion[{agg}]", eq_all(outz, out[:pos] + [R(0)] + out[pos:]), cex)]
