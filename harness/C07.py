"""C07 - parallel_chunk_size is a pure performance knob (same update; ceil(rows/k) sweeps of <= k rows; k=1 never uses vmap)."""
import math

from harness.autojac_common import *
from harness import C02
from torchjd.autojac import backward, mtl_backward

ASSUMPTIONS = [
    "sweeps are observed in the environment model: every torch.autograd.grad call is an event carrying (inside-vmap?, retain_graph, executed nodes); "
    "all calls issued under one torch.vmap invocation form ONE batched sweep of as many rows as the batch",
    "all (m, k) pairs: m = 1..12 rows, k in {None, 1..m+2}; the row count is realised by one output of shape (m,) and by two outputs of sizes (m1, m2)",
    "uninterpreted aggregator; update equality across chunk sizes is checked against the run with parallel_chunk_size=None on a twin program",
    "vmap-incompatible node: a node flagged vmap_ok=False raises inside vmap in the model (a custom autograd.Function without vmap support on the real stack)",
]


def bounds(tier):
    return dict(rows="1..12", chunk="None, 1..rows+2 (all pairs)", retain_graph=[False, True], mtl=dict(tasks=[2, 3], chunk=[None, 1, 2, 3, 4]))


def cases(tier):
    cs = []
    for m in range(1, 13):
        cs.append(dict(name=f"backward_rows{m}", fn="bw", args=dict(m=m), weight=m))
    for m1, m2 in [(1, 1), (2, 1), (1, 3), (2, 3), (4, 3)]:
        cs.append(dict(name=f"backward_two_outputs_{m1}_{m2}", fn="bw2", args=dict(m1=m1, m2=m2), weight=m1 + m2))
    for tf in range(2):
        for nt in range(2):
            for sq in range(2):
                cs.append(dict(name=f"mtl_{tf}{nt}{sq}", fn="mtl", args=dict(tier=tier), prefix=[tf, nt, sq], weight=10 if tf and nt else 2))
    cs.append(dict(name="bad_chunk_sizes", fn="bad", args={}))
    return cs


def sweeps(events, trunk_ops=None):
    """-> list of (rows, used_vmap, retain_graph) for every (batched) sweep that executed one of `trunk_ops` (all sweeps if None)"""
    out = []
    i = 0
    in_vmap = None
    for e in events:
        if e[0] == "vmap_enter":
            in_vmap = dict(rows=e[1], retain=None, hit=False)
        elif e[0] == "vmap_exit":
            if in_vmap is not None and in_vmap["hit"]:
                out.append((in_vmap["rows"], True, in_vmap["retain"]))
            in_vmap = None
        elif e[0] == "sweep":
            hit = trunk_ops is None or any(o in trunk_ops for o in e[3])
            if in_vmap is not None:
                in_vmap["hit"] = in_vmap["hit"] or hit
                in_vmap["retain"] = e[2]
            elif hit:
                out.append((1, False, e[2]))
    return out


def expected_blocks(m, k):
    k = m if k is None else k
    n = math.ceil(m / k)
    return [k] * (n - 1) + [m - (n - 1) * k]


def _run(spec, outs, k, retain, vmap_bad=False):
    prog = Prog(spec, ranks={"a": 0, "b": 1})
    del torch.EVENTS[:]
    A = AStar()
    backward([prog[n] for n in outs], A, inputs=[prog["a"], prog["b"]], parallel_chunk_size=k, retain_graph=retain)
    return prog, A, list(torch.EVENTS)


def _obs_sweeps(ev, m, k, retain, label):
    sw = sweeps(ev)
    exp = expected_blocks(m, k)
    # the property fixes the NUMBER of sweeps and their maximal size, not the order of the blocks
    k_eff = m if k is None else k
    obs = [Ob(f"{label}_sweep_row_blocks", len(sw) == len(exp) and all(1 <= s[0] <= k_eff for s in sw) and sum(s[0] for s in sw) == m),
           Ob(f"{label}_vmap_iff_block_has_more_than_one_row", all(s[1] == (s[0] > 1) for s in sw))]
    # (which sweeps retain the graph is an implementation matter; its observable consequence - what is freed afterwards - is C13's subject)
    return obs


def case_bw(sp, m):
    set_kernels()
    ks = chunk_options(m)
    k = ks[choice(len(ks), "chunk")]
    retain = choice(2, "retain_graph") == 1
    vmap_bad = choice(2, "vmap_incompatible_node") == 1
    spec = dict(leaves=[("a", (2,), True), ("b", (), True)],
                ops=[dict(name="f", inputs=["a", "b"], outs=[("y", (m,))], deps={(0, 0), (0, 1)}, vmap_ok=not vmap_bad)])
    def cex(model=None):
        return dict(kind="chunking", spec=spec_json(spec), outputs=["y"], inputs=["a", "b"], chunk=k, retain_graph=retain, rows=m, jac={}, mode="backward")
    try:
        prog, A, ev = _run(spec, ["y"], k, retain)
    except RuntimeError as e:
        # allowed only if vmap had to be used on a vmap-incompatible node: block of more than one row
        needs_vmap = any(b > 1 for b in expected_blocks(m, k))
        return [Ob("sequential_when_k_is_1_or_single_row", bool(vmap_bad and needs_vmap), cex)]
    obs = _obs_sweeps(ev, m, k, retain, "backward")
    for o in obs:
        o.cex = cex
    # same update as with parallel_chunk_size=None (twin program, same symbolic Jacobians, same uninterpreted aggregator)
    if not vmap_bad or m == 1:
        prog0, A0, _ = _run(spec, ["y"], None, retain)
        obs.append(Ob("same_matrix_for_every_chunk_size", mat_eq(rows_of(A.seen[0]), rows_of(A0.seen[0])), cex))
        for n in ("a", "b"):
            obs.append(Ob("same_update_for_every_chunk_size", eq_all(grad_list(prog[n]), grad_list(prog0[n])), cex))
    return obs


def case_bw2(sp, m1, m2):
    set_kernels()
    m = m1 + m2
    ks = chunk_options(m)
    k = ks[choice(len(ks), "chunk")]
    retain = choice(2, "retain_graph") == 1
    spec = dict(leaves=[("a", (2,), True), ("b", (), True)],
                ops=[dict(name="f", inputs=["a", "b"], outs=[("y1", (m1,))], deps={(0, 0), (0, 1)}),
                     dict(name="g", inputs=["a"], outs=[("y2", (m2,))], deps={(0, 0)})])
    def cex(model=None):
        return dict(kind="chunking", spec=spec_json(spec), outputs=["y1", "y2"], inputs=["a", "b"], chunk=k, retain_graph=retain, rows=m, jac={}, mode="backward")
    prog, A, ev = _run(spec, ["y1", "y2"], k, retain)
    obs = _obs_sweeps(ev, m, k, retain, "backward")
    for o in obs:
        o.cex = cex
    prog0, A0, _ = _run(spec, ["y1", "y2"], None, retain)
    obs.append(Ob("same_matrix_for_every_chunk_size", mat_eq(rows_of(A.seen[0]), rows_of(A0.seen[0])), cex))
    for n in ("a", "b"):
        obs.append(Ob("same_update_for_every_chunk_size", eq_all(grad_list(prog[n]), grad_list(prog0[n])), cex))
    return obs


def case_mtl(sp, tier):
    set_kernels()
    spec, feats, n_tasks, tasks_params = C02.make_spec(sp, tier, "structure")
    ks = [None, 1, 2, 3, 4]
    k = ks[choice(len(ks), "chunk")]
    retain = choice(2, "retain_graph") == 1
    def run(kk):
        prog = Prog(spec, ranks={"p0": 0, "p1": 1})
        del torch.EVENTS[:]
        A = AStar()
        mtl_backward([prog[f"loss{t}"] for t in range(n_tasks)], [prog[f] for f in feats], A, parallel_chunk_size=kk, retain_graph=retain,
                     tasks_params=[[prog[n] for n in ps] for ps in tasks_params], shared_params=[prog["p0"], prog["p1"]])
        trunk = {o.idx for (od, ins, outs, jac) in prog.ops if od["name"].startswith("trunk") for o in [outs[0].grad_fn]}
        return prog, A, sweeps(list(torch.EVENTS), trunk)
    prog, A, sw = run(k)
    def cex(model=None):
        return dict(kind="chunking", spec=spec_json(spec), losses=[f"loss{t}" for t in range(n_tasks)], features=feats, tasks_params=tasks_params,
                    shared_params=["p0", "p1"], chunk=k, retain_graph=retain, rows=n_tasks, jac={}, mode="mtl")
    exp = expected_blocks(n_tasks, k)
    k_eff = n_tasks if k is None else k
    obs = [Ob("mtl_sweep_row_blocks", len(sw) == len(exp) and all(1 <= s[0] <= k_eff for s in sw) and sum(s[0] for s in sw) == n_tasks, cex),
           Ob("mtl_vmap_iff_block_has_more_than_one_row", all(s[1] == (s[0] > 1) for s in sw), cex)]
    prog0, A0, _ = run(None)
    obs.append(Ob("mtl_same_matrix_for_every_chunk_size", mat_eq(rows_of(A.seen[0]), rows_of(A0.seen[0])), cex))
    for n in prog.leaf_names():
        g, g0 = grad_list(prog[n]), grad_list(prog0[n])
        obs.append(Ob("mtl_same_update_for_every_chunk_size", (g is None and g0 is None) or (g is not None and g0 is not None and z3.is_true(z3.simplify(eq_all(g, g0)))), cex))
    return obs


def case_bad(sp):
    set_kernels()
    obs = []
    for k in (0, -1, -5):
        spec = dict(leaves=[("a", (2,), True), ("b", (), True)], ops=[dict(name="f", inputs=["a", "b"], outs=[("y", (2,))], deps={(0, 0), (0, 1)})])
        prog = Prog(spec)
        try:
            backward([prog["y"]], AStar(), inputs=[prog["a"]], parallel_chunk_size=k)
            obs.append(Ob("non_positive_chunk_size_rejected", False, lambda model, k=k: dict(kind="bad_chunk", chunk=k)))
        except ValueError:
            obs.append(Ob("non_positive_chunk_size_rejected", True))
    return obs
