"""Shared pieces of the harnesses: symbolic input domains, reference linear algebra over R, helpers."""
from __future__ import annotations

import itertools
import sys
from fractions import Fraction

import z3

import symx
from symx import B, R, Sp, Ob, lift, named, fresh, assume, choice

import torch  # the model (symtorch must precede the real torch on sys.path)


# ---------------------------------------------------------------------------------------------
# linear algebra on lists of R
# ---------------------------------------------------------------------------------------------
def rsum(xs):
    r = R(0)
    for x in xs:
        r = r + x
    return r


def dot(a, b):
    return rsum(x * y for x, y in zip(a, b))


def matmul(A, Bm):
    return [[rsum(A[i][k] * Bm[k][j] for k in range(len(Bm))) for j in range(len(Bm[0]))] for i in range(len(A))]


def transpose(A):
    return [list(r) for r in zip(*A)]


def matvec(A, v):
    return [dot(r, v) for r in A]


def vecmat(v, A):
    return [rsum(v[i] * A[i][j] for i in range(len(A))) for j in range(len(A[0]))]


def gram_of(J):
    return matmul(J, transpose(J))


def eq_all(xs, ys):
    xs, ys = list(xs), list(ys)
    assert len(xs) == len(ys), (len(xs), len(ys))
    if not xs:
        return z3.BoolVal(True)
    return z3.And(*[lift(x).eqz(y) if not isinstance(x, Sp) else z3.BoolVal(isinstance(y, Sp) and y.k == x.k) for x, y in zip(xs, ys)])


def tlist(t):
    """rows of a 2-d tensor / list of a 1-d tensor as lists of R"""
    if t.dim() == 1:
        return t._flat()
    m, n = t.shape
    fl = t._flat()
    return [[fl[i * n + j] for j in range(n)] for i in range(m)]


def T(data, dtype=None):
    """tensor from nested lists of R"""
    return torch.tensor(data, dtype=dtype or torch.float32)


# ---------------------------------------------------------------------------------------------
# input domains
# ---------------------------------------------------------------------------------------------
def entry_matrix(m, n, name="j", dtype=None):
    """m x n matrix of free reals (entry-level domain)."""
    J = [[named(f"{name}{i}{k}") for k in range(n)] for i in range(m)]
    return T(J, dtype) if m and n else torch.zeros(m, n, dtype=dtype or torch.float32), J


def rotation(m, name="q"):
    """rationally parametrised orthogonal matrix: identity (m=1), Cayley (m=2,3).  Every special-orthogonal
    matrix without eigenvalue -1 is hit, and Q diag(d) Q^T ranges over ALL symmetric matrices with
    eigenvalues d (column sign flips do not change it)."""
    if m == 1:
        return [[R(1)]], []
    if m == 2:
        p = named(f"{name}p")
        den = 1 + p * p
        c, s = (1 - p * p) / den, (2 * p) / den
        return [[c, -s], [s, c]], [p]
    if m == 3:
        a, b, c = named(f"{name}a"), named(f"{name}b"), named(f"{name}c")
        n2 = a * a + b * b + c * c
        den = 1 + n2
        v = [a, b, c]
        cross = [[R(0), -c, b], [c, R(0), -a], [-b, a, R(0)]]
        Q = [[(((1 - n2) if i == j else R(0)) + 2 * v[i] * v[j] + 2 * cross[i][j]) / den for j in range(3)] for i in range(3)]
        return Q, v
    raise ValueError("rotation: m <= 3")


def spectral_gram(m, name="g", positive_definite=False, rank=None):
    """G = Q diag(sigma^2) Q^T with sigma_0 >= sigma_1 >= ... >= 0 free: the set of ALL m x m Gramians (m <= 3).
    Returns (G rows, hint dict for the spectral kernel stubs, sigma list)."""
    Q, params = rotation(m, name + "q")
    sig = [named(f"{name}s{i}") for i in range(m)]
    for i in range(m):
        lo = sig[i + 1] if i + 1 < m else R(0)
        assume((sig[i] > lo) if (positive_definite and i + 1 == m) else (sig[i] >= lo))
    if rank is not None:
        for i in range(m):
            assume((sig[i] > 0) if i < rank else (sig[i] == 0))
    D = [[sig[i] * sig[i] if i == j else R(0) for j in range(m)] for i in range(m)]
    G = matmul(matmul(Q, D), transpose(Q))
    # symmetrise syntactically (G[i][j] and G[j][i] are equal polynomials; use one term for both)
    for i in range(m):
        for j in range(i):
            G[i][j] = G[j][i]
    return G, dict(Q=Q, sigma=sig), sig


def free_gram(m, name="g", nonzero_rows=False):
    """G with free entries constrained PSD by its principal minors (alternative domain, no eigen-hint)."""
    g = {}
    for i in range(m):
        for j in range(i, m):
            g[i, j] = g[j, i] = named(f"{name}{i}{j}")
    G = [[g[i, j] for j in range(m)] for i in range(m)]
    for k in range(1, m + 1):
        for idx in itertools.combinations(range(m), k):
            sub = [[G[a][b] for b in idx] for a in idx]
            d = torch.linalg._det(sub)
            assume((d > 0) if (k == 1 and nonzero_rows) else (d >= 0))
    return G


def gram_only(G, n=None, dtype=None):
    return torch.GramOnly(G, n if n is not None else len(G), dtype or torch.float32)


def perms(n):
    return list(itertools.permutations(range(n)))


def pick_perm(n, label="perm"):
    ps = perms(n)
    return ps[choice(len(ps), label)]


# ---------------------------------------------------------------------------------------------
# counterexample helpers
# ---------------------------------------------------------------------------------------------
def cex_values(model, **named_values):
    """evaluate nested lists of R under the model -> JSON-able nested lists of floats / fraction strings"""
    def ev(x):
        if isinstance(x, (list, tuple)):
            return [ev(y) for y in x]
        if isinstance(x, dict):
            return {k: ev(v) for k, v in x.items()}
        if isinstance(x, (R, B, Sp)):
            v = symx.mval(model, x)
            if isinstance(v, Fraction):
                return float(v) if v.denominator > 10 ** 12 or abs(v.numerator) > 10 ** 15 else (str(v) if v.denominator != 1 else int(v))
            return v
        if hasattr(x, "_flat"):
            return ev(x.tolist())
        return x
    return {k: ev(v) for k, v in named_values.items()}


def set_kernels(**kw):
    torch.KERNELS.clear()
    torch.KERNELS.update(kw)
    torch._RNG.__init__()
    del torch.EVENTS[:]
