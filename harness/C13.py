"""C13 - retain_graph means what it means in torch.autograd."""
from harness.autojac_common import *
from harness import C01, C02
from torchjd.autojac import backward, mtl_backward

ASSUMPTIONS = [
    "freeing is observed in the environment model: an op executed by a sweep without retain_graph is marked freed; executing a freed op that saves tensors raises "
    "RuntimeError (ops that save nothing never raise), as in torch; the model's rule 'only ops on a path to a requested input are executed' is validated against real torch in /verif/validate",
    "oracle: torch.autograd.backward(tensors, grad_tensors, retain_graph=flag, inputs=...) of the model on a twin graph: same set of freed ops, "
    "hence every follow-up differentiation fails or succeeds identically",
    "per-op 'saves tensors' flags, graph shape, chunk size, flags of up to 3 successive calls are enumerated by free choice",
    "mtl_backward with retain_graph=False: heads share no node besides the features (precondition of the property)",
    "mtl_backward: every feature is used by at least one loss (a feature no loss depends on is differentiated with a zero cotangent by torchjd, "
    "so its trunk IS traversed and freed, whereas torch.autograd.backward(losses) never visits it; such degenerate programs are outside the claim)",
]


def bounds(tier):
    return dict(backward=dict(programs="3 leaves, 1 intermediate, 2 outputs (C01 graph family, reduced)", saves_flags="all", chunk=[None, 1, 2], calls="<= 3"),
                mtl=dict(programs="C02 structure family without task-shared parameters", chunk=[None, 1, 2], calls="<= 2"))


def cases(tier):
    cs = []
    for ih in range(7):
        cs.append(dict(name=f"backward_h{ih}", fn="bw", args=dict(tier=tier), prefix=[ih], weight=3))
    for tf in range(2):
        for nt in range(2):
            cs.append(dict(name=f"mtl_{tf}{nt}", fn="mtl", args=dict(tier=tier), prefix=[tf, nt, 0], weight=4))
    return cs


def freed(prog):
    return sorted(od["name"] for (od, ins, outs, jac) in prog.ops if outs[0].grad_fn is not None and outs[0].grad_fn.freed)


def _attempt(fn):
    try:
        fn()
        return "ok"
    except RuntimeError:
        return "RuntimeError"


def case_bw(sp, tier):
    set_kernels()
    hsub = C01.SUBSETS3[choice(7, "h_inputs")]
    names = ["a", "b", "c", "h"]
    y1sub = [(3,), (0, 1, 3), (0,)][choice(3, "y1_inputs")]
    y2sub = [(3,), (0, 2, 3)][choice(2, "y2_inputs")]
    saves = [choice(2, f"saves_{n}") == 0 for n in ("fh", "f1", "f2")]
    spec = dict(leaves=[("a", (2,), True), ("b", (), True), ("c", (2,), True)],
                ops=[dict(name="fh", inputs=[names[i] for i in hsub], outs=[("h", (2,))], deps={(0, i) for i in range(len(hsub))}, saves=saves[0]),
                     dict(name="f1", inputs=[names[i] for i in y1sub], outs=[("y1", (2,))], deps={(0, i) for i in range(len(y1sub))}, saves=saves[1]),
                     dict(name="f2", inputs=[names[i] for i in y2sub], outs=[("y2", ())], deps={(0, i) for i in range(len(y2sub))}, saves=saves[2])])
    ins = [["a", "b", "c"], ["b", "c"]][choice(2, "inputs")]
    outs = ["y1", "y2"]
    k = [None, 1, 2][choice(3, "chunk")]
    flag1 = choice(2, "retain_graph_1") == 1
    prog, twin = Prog(spec, ranks={n: i for i, n in enumerate(ins)}), Prog(spec)
    A = AStar()
    def cex(model=None):
        return dict(kind="retain_graph", mode="backward", spec=spec_json(spec), outputs=outs, inputs=ins, chunk=k, flags=[flag1], jac={})
    obs = []
    r1 = _attempt(lambda: backward([prog[n] for n in outs], A, inputs=[prog[n] for n in ins], retain_graph=flag1, parallel_chunk_size=k))
    obs.append(Ob("first_call_succeeds_for_every_chunk_size", r1 == "ok", cex))
    if r1 != "ok":
        return obs
    gt = [torch.ones_like(twin[n]) for n in outs]
    torch.autograd.backward([twin[n] for n in outs], grad_tensors=gt, retain_graph=flag1, inputs=[twin[n] for n in ins])
    obs.append(Ob("same_ops_freed_as_autograd_backward", freed(prog) == freed(twin), cex))
    if flag1:
        obs.append(Ob("retain_graph_true_frees_nothing", freed(prog) == [], cex))
    # follow-up differentiation: identical outcome on both graphs
    fu = choice(4, "follow_up")
    flag2 = choice(2, "retain_graph_2") == 1
    k2 = None
    g_before = {n: grad_list(prog[n]) for n in ins}
    if fu == 0:
        f_real = lambda: backward([prog[n] for n in outs], A, inputs=[prog[n] for n in ins], retain_graph=flag2, parallel_chunk_size=k2)
        f_twin = lambda: torch.autograd.backward([twin[n] for n in outs], grad_tensors=gt, retain_graph=flag2, inputs=[twin[n] for n in ins])
    elif fu == 1:
        f_real = lambda: torch.autograd.grad([prog["y1"]], [prog["a"]], grad_outputs=[torch.ones_like(prog["y1"])], retain_graph=flag2, allow_unused=True)
        f_twin = lambda: torch.autograd.grad([twin["y1"]], [twin["a"]], grad_outputs=[torch.ones_like(twin["y1"])], retain_graph=flag2, allow_unused=True)
    elif fu == 2:
        f_real = lambda: backward([prog["y2"]], A, inputs=[prog["c"]], retain_graph=flag2, parallel_chunk_size=k2)
        f_twin = lambda: torch.autograd.backward([twin["y2"]], grad_tensors=[torch.ones_like(twin["y2"])], retain_graph=flag2, inputs=[twin["c"]])
    else:
        f_real = lambda: torch.autograd.backward([prog["y2"]], retain_graph=flag2)
        f_twin = lambda: torch.autograd.backward([twin["y2"]], retain_graph=flag2)
    r2, t2 = _attempt(f_real), _attempt(f_twin)
    obs.append(Ob("follow_up_fails_or_succeeds_as_after_autograd", r2 == t2, cex))
    obs.append(Ob("same_ops_freed_after_follow_up", freed(prog) == freed(twin), cex))
    if flag1 and fu == 0 and r2 == "ok":
        # identical second call adds an identical update (deterministic aggregator: same fresh names per call index are NOT equal,
        # so compare through the recorded matrices and the linear relation grad2 - grad1 == slices of the second answer)
        obs.append(Ob("second_call_sees_same_matrix", mat_eq(rows_of(A.seen[0]), rows_of(A.seen[1])), cex))
    return obs


def case_mtl(sp, tier):
    set_kernels()
    spec, feats, n_tasks, tasks_params = C02.make_spec(sp, tier, "structure", own_fixed=[2, 1, 0])
    used = {f for o in spec["ops"] if o["name"].startswith("head") for f in o["inputs"]}
    if not all(f in used for f in feats):
        raise symx.PathAbort("a feature that no loss depends on (outside the property: it is not a feature of the model)")
    head_saves = choice(2, "saves_heads") == 0
    saves = {o["name"]: (head_saves if o["name"].startswith("head") else choice(2, f"saves_{o['name']}") == 0) for o in spec["ops"]}
    for o in spec["ops"]:
        o["saves"] = saves[o["name"]]
    k = [None, 1, 2][choice(3, "chunk")]
    flag1 = choice(2, "retain_graph_1") == 1
    prog, twin = Prog(spec, ranks={"p0": 0, "p1": 1}), Prog(spec)
    losses = [f"loss{t}" for t in range(n_tasks)]
    A = AStar()
    def cex(model=None):
        return dict(kind="retain_graph", mode="mtl", spec=spec_json(spec), losses=losses, features=feats, tasks_params=tasks_params, shared_params=["p0", "p1"],
                    chunk=k, flags=[flag1], jac={})
    call = lambda p, fl, kk: mtl_backward([p[n] for n in losses], [p[f] for f in feats], A, tasks_params=[[p[n] for n in ps] for ps in tasks_params],
                                          shared_params=[p["p0"], p["p1"]], retain_graph=fl, parallel_chunk_size=kk)
    obs = []
    r1 = _attempt(lambda: call(prog, flag1, k))
    obs.append(Ob("mtl_first_call_succeeds_for_every_chunk_size", r1 == "ok", cex))
    if r1 != "ok":
        return obs
    allp = ["p0", "p1"] + sorted({n for ps in tasks_params for n in ps})
    torch.autograd.backward([twin[n] for n in losses], retain_graph=flag1, inputs=[twin[n] for n in allp])
    obs.append(Ob("mtl_same_ops_freed_as_autograd_backward", freed(prog) == freed(twin), cex))
    if flag1:
        obs.append(Ob("mtl_retain_graph_true_frees_nothing", freed(prog) == [], cex))
    flag2 = choice(2, "retain_graph_2") == 1
    fu = choice(2, "follow_up")
    if fu == 0:
        r2 = _attempt(lambda: call(prog, flag2, None))
        t2 = _attempt(lambda: torch.autograd.backward([twin[n] for n in losses], retain_graph=flag2, inputs=[twin[n] for n in allp]))
    else:
        r2 = _attempt(lambda: torch.autograd.grad([prog[losses[0]]], [prog["p0"]], retain_graph=flag2, allow_unused=True))
        t2 = _attempt(lambda: torch.autograd.grad([twin[losses[0]]], [twin["p0"]], retain_graph=flag2, allow_unused=True))
    obs.append(Ob("mtl_follow_up_fails_or_succeeds_as_after_autograd", r2 == t2, cex))
    return obs
