"""Symbolic autograd programs for the autojac harnesses.

A program is a *spec* (plain data: leaves, ops, which (output, input) pairs have a non-zero local Jacobian, flags)
so that the same program can be instantiated several times (twin graphs for torch.autograd oracles).  The local
Jacobians are named solver variables: any differentiable op at any point is an instance."""
from __future__ import annotations

from harness.common import *
from torch import autograd
from torchjd.aggregation.bases import Aggregator

SHAPES_Q = [(), (1,), (2,), (1, 2), (2, 1)]
SHAPES_T = SHAPES_Q + [(3,), (2, 2), (1, 1, 2), (1, 2, 1, 1)]


def numel(shape):
    r = 1
    for s in shape:
        r *= s
    return r


class Prog:
    def __init__(self, spec, tag="", ranks=None, dtype=None):
        """spec = dict(leaves=[(name, shape, requires_grad)], ops=[dict(name, inputs=[names], outs=[(name, shape)], deps={(k, i)}, saves, vmap_ok)])"""
        self.spec = spec
        self.t = {}
        self.ops = []
        self.order = []  # tensor names in creation (topological) order
        ranks = ranks or {}
        for (name, shape, rg) in spec["leaves"]:
            t = autograd.leaf(shape, requires_grad=rg, name=f"{name}", rank=ranks.get(name), dtype=dtype)
            self.t[name] = t
            self.order.append(name)
        for o in spec["ops"]:
            ins = [self.t[n] for n in o["inputs"]]
            jac = {}
            for (k, i) in sorted(o["deps"]):
                oshape = o["outs"][k][1]
                jac[(k, i)] = [[named(f"D_{o['name']}_{k}_{i}_{r}_{c}") for c in range(ins[i].numel())] for r in range(numel(oshape))]
            outs = autograd.op(ins, [s for _, s in o["outs"]], jac, saves=o.get("saves", True), vmap_ok=o.get("vmap_ok", True),
                               name=o["name"], ranks=[ranks.get(n) for n, _ in o["outs"]], dtype=dtype)
            for (n, _), t in zip(o["outs"], outs):
                self.t[n] = t
                t._name = n
                self.order.append(n)
            self.ops.append((o, ins, outs, jac))

    def __getitem__(self, name):
        return self.t[name]

    def leaves(self):
        return [self.t[n] for (n, _, _) in self.spec["leaves"]]

    def leaf_names(self):
        return [n for (n, _, _) in self.spec["leaves"]]

    # ---- oracle: forward accumulation of path products (independent of the model's reverse sweep)
    def total_jac(self, wrt_name):
        """dict tensor name -> matrix d tensor / d wrt (numel(tensor) x numel(wrt)), None when there is no dependence.
        `wrt` may be a leaf or an intermediate tensor (then dependence THROUGH it is what is computed)."""
        w = self.t[wrt_name]
        nw = w.numel()
        D = {wrt_name: [[R(1) if r == c else R(0) for c in range(nw)] for r in range(nw)]}
        for (o, ins, outs, jac) in self.ops:
            for k, (oname, oshape) in enumerate(o["outs"]):
                if oname == wrt_name:
                    continue
                acc = None
                for i, iname in enumerate(o["inputs"]):
                    M = jac.get((k, i))
                    if M is None or not ins[i].requires_grad:
                        continue
                    Din = D.get(iname)
                    if Din is None:
                        continue
                    prod = matmul(M, Din)
                    acc = prod if acc is None else [[a + b for a, b in zip(ra, rb)] for ra, rb in zip(acc, prod)]
                if acc is not None:
                    D[oname] = acc
        return D

    def jacobian(self, out_names, in_names):
        """full Jacobian: rows = scalars of the outputs (in order, row-major), columns = scalars of the inputs (in order)"""
        per_in = {n: self.total_jac(n) for n in in_names}
        rows = []
        for on in out_names:
            no = self.t[on].numel()
            for r in range(no):
                row = []
                for n in in_names:
                    D = per_in[n].get(on)
                    ni = self.t[n].numel()
                    row.extend(D[r] if D is not None else [R(0)] * ni)
                rows.append(row)
        return rows


class AStar(Aggregator):
    """uninterpreted aggregator: records the matrix it is given, returns fresh reals (or raises on demand)"""

    def __init__(self, raise_error=None):
        super().__init__()
        self.seen = []
        self.outs = []
        self.raise_error = raise_error

    def forward(self, matrix):
        self.seen.append(matrix)
        if self.raise_error is not None:
            raise self.raise_error
        k = len(self.outs)
        out = torch.Tensor._make([named(f"v{k}_{c}") for c in range(matrix.shape[1])], (matrix.shape[1],), matrix.dtype, "real")
        self.outs.append(out)
        return out

    def __str__(self):
        return "AStar"


def set_grad(t, name, strided=False):
    """pre-existing .grad with arbitrary content; strided: a NON-CONTIGUOUS tensor (every second element of a larger buffer), as left behind by an
    optimizer or a user who assigned a view"""
    vals = [named(f"old_{name}_{k}") for k in range(t.numel())]
    if strided and t.numel() >= 2 and t.dim() >= 1:
        inter = []
        for v in vals:
            inter += [v, R(0)]
        base = torch.Tensor._make(inter, (2 * t.numel(),), t.dtype, "real")
        g = base[::2]
        t._grad = g.reshape(t.shape) if t.dim() == 1 else g.view(t.shape) if g._try_view_strides(list(t.shape)) is not None else torch.Tensor._make(vals, t.shape, t.dtype, "real")
    else:
        t._grad = torch.Tensor._make(vals, t.shape, t.dtype, "real")
    return vals


def grad_list(t):
    return None if t.grad is None else t.grad._flat()


def rows_of(t2d):
    m, n = t2d.shape
    fl = t2d._flat()
    return [[fl[i * n + j] for j in range(n)] for i in range(m)]


def mat_eq(A, Bm):
    if len(A) != len(Bm):
        return z3.BoolVal(False)
    if A and len(A[0]) != len(Bm[0]):
        return z3.BoolVal(False)
    return eq_all([x for r in A for x in r], [x for r in Bm for x in r])


def chunk_options(rows):
    return [None] + list(range(1, rows + 3))


def spec_json(spec):
    return dict(leaves=[[n, list(s), bool(rg)] for n, s, rg in spec["leaves"]],
                ops=[dict(name=o["name"], inputs=list(o["inputs"]), outs=[[n, list(s)] for n, s in o["outs"]], deps=[list(d) for d in sorted(o["deps"])],
                          saves=o.get("saves", True), vmap_ok=o.get("vmap_ok", True)) for o in spec["ops"]])


def jac_values(model, prog):
    """concrete local Jacobians of a program under a model (for replay)"""
    out = {}
    for (o, ins, outs, jac) in prog.ops:
        for (k, i), M in jac.items():
            out[f"{o['name']}:{k}:{i}"] = cex_values(model, M=M)["M"]
    return out


ORDINARY = (ValueError, RuntimeError, TypeError, IndexError, KeyError, ZeroDivisionError, AttributeError)


def valid_call(fn, cex, name="call_on_valid_arguments_succeeds"):
    """run fn() - a call whose arguments are valid for the property.  An ordinary exception is not an error of the harness but a failed obligation
    (the replay re-executes the scenario on the real stack; see replay/real.py: `raised`).  Returns (result, None) or (None, [Ob])."""
    try:
        return fn(), None
    except ORDINARY as e:
        msg = f"{type(e).__name__}: {e}"[:300]
        return None, [Ob(name, False, lambda model=None: dict(cex(model), raised=msg))]
