"""C18 - MGDA, PCGrad, CAGrad, GradDrop and Random satisfy their published definitions."""
from harness.common import *
from torchjd.aggregation import MGDA, PCGrad, CAGrad, GradDrop, Random

ASSUMPTIONS = [
    "PCGrad/MGDA/Random/CAGrad are run on a Gram-only matrix (all J with a given Gramian, any n >= rank); GradDrop and the vector form of PCGrad on entry-level J",
    "randomness: torch.randperm / rand / randn return ARBITRARY values (all projection orders by forking, U in [0,1) and Gaussian draws as free reals)",
    "GradDrop: exact ties P_j == U_j are excluded (measure zero; with a tie torch drops the whole column, which the property text does not describe)",
    "CAGrad: 'zero vector at stationarity' is read as: the code may return 0 exactly when its inner solution has normalised norm < norm_eps; the cvxpy kernel is a contract stub (feasible point satisfying first-order optimality)",
    "Random: exp() is an uninterpreted positive function",
]


def bounds(tier):
    return dict(pcgrad_m=[2, 3], pcgrad_orders="all (m-1)!^m ... explored as all m!^m randperm outcomes", mgda_m=[2, 3], mgda_max_iters=[1, 2, 3] if tier == "thorough" else [1, 2],
                graddrop=dict(m=[1, 2, 3] if tier == "thorough" else [1, 2], n=[1, 2]), random_m=[1, 2, 3], cagrad_m=[2])


def cases(tier):
    cs = []
    cs.append(dict(name="pcgrad_gram_m2", fn="pcgrad_gram", args=dict(m=2)))
    for a in range(3):
        for b in range(2):
            for c in range(3):
                for d in range(2):
                    cs.append(dict(name=f"pcgrad_gram_m3_{a}{b}{c}{d}", fn="pcgrad_gram", args=dict(m=3), prefix=[a, b, 0, c, d, 0], weight=3))
    cs.append(dict(name="pcgrad_vec_m2n2", fn="pcgrad_vec", args=dict(m=2, n=2)))
    for m in (2, 3):
        for it in ((1, 2, 3) if tier == "thorough" else (1, 2)):
            if m == 3 and it > 1:
                continue  # degree blow-up: z3 returns unknown on branch feasibility (measured); outside the bound
            cs.append(dict(name=f"mgda_m{m}_it{it}", fn="mgda", args=dict(m=m, iters=it), weight=2 * it))
            if m == 2:
                # the same clause on the free (low-degree) Gramian domain: stays decidable for variants whose arithmetic is not scale-free
                cs.append(dict(name=f"mgda_free_m{m}_it{it}", fn="mgda", args=dict(m=m, iters=it, free=True), weight=2 * it))
    for m in (1, 2, 3):
        cs.append(dict(name=f"random_m{m}", fn="random", args=dict(m=m)))
    for m in ((1, 2, 3) if tier == "thorough" else (1, 2)):
        for n in (1, 2):
            if m == 3 and n == 2:
                for p in range(2):
                    cs.append(dict(name=f"graddrop_m{m}n{n}_{p}", fn="graddrop", args=dict(m=m, n=n), weight=4))
            else:
                cs.append(dict(name=f"graddrop_m{m}n{n}", fn="graddrop", args=dict(m=m, n=n), weight=m * n))
    cs.append(dict(name="cagrad_m2", fn="cagrad", args=dict(m=2), weight=5))
    cs.append(dict(name="cagrad_m2_c0", fn="cagrad", args=dict(m=2, czero=True), weight=5))
    return cs


# ------------------------------------------------------------------------------------------- PCGrad
def _pc_reference(G, orders, m):
    """weights of sum_i g_i^PC: row i successively projected off every other row it conflicts with, in the drawn order"""
    tot = [R(0)] * m
    for i in range(m):
        c = [R(1) if k == i else R(0) for k in range(m)]
        for j in orders[i]:
            if j == i:
                continue
            ip = rsum(G[j][k] * c[k] for k in range(m))  # <g_i^PC, g_j> with the ALREADY projected g_i^PC
            if ip < 0:
                c[j] = c[j] - ip / G[j][j]
        tot = [a + b for a, b in zip(tot, c)]
    return tot


def _spy_randperm():
    drawn = []
    orig = torch.randperm

    def rp(n, **kw):
        t = orig(n, **kw)
        drawn.append([int(x) for x in t._flat()])
        return t
    return drawn, rp, orig


def case_pcgrad_gram(sp, m):
    set_kernels()
    G = free_gram(m, nonzero_rows=False)
    J = gram_only(G)
    drawn, rp, orig = _spy_randperm()
    torch.randperm = rp
    try:
        out = PCGrad()(J)
    finally:
        torch.randperm = orig
    w = out._w._flat()
    exp = _pc_reference(G, drawn, m)
    def cex(model):
        return dict(kind="pcgrad", **cex_values(model, G=G, orders=drawn, weights_model=w, weights_expected=exp))
    obs = [Ob("pcgrad_weights_are_sequential_projections", eq_all(w, exp), cex)]
    # no conflict => plain sum
    noconf = z3.And(*[(G[i][j] >= 0).z() for i in range(m) for j in range(i)]) if m > 1 else z3.BoolVal(True)
    obs.append(Ob("pcgrad_no_conflict_is_sum", z3.Implies(noconf, eq_all(w, [R(1)] * m)), cex))
    return obs


def case_pcgrad_vec(sp, m, n):
    set_kernels()
    Jt, J = entry_matrix(m, n)
    drawn, rp, orig = _spy_randperm()
    torch.randperm = rp
    try:
        out = PCGrad()(Jt)
    finally:
        torch.randperm = orig
    # vector-form reference
    tot = [R(0)] * n
    for i in range(m):
        g = list(J[i])
        for j in drawn[i]:
            if j == i:
                continue
            ip = dot(g, J[j])
            if ip < 0:
                nj = dot(J[j], J[j])
                g = [a - ip / nj * b for a, b in zip(g, J[j])]
        tot = [a + b for a, b in zip(tot, g)]
    def cex(model):
        return dict(kind="pcgrad_vec", **cex_values(model, J=J, orders=drawn, out_model=out._flat(), out_expected=tot))
    return [Ob("pcgrad_vector_form", eq_all(out._flat(), tot), cex)]


# ------------------------------------------------------------------------------------------- MGDA
def case_mgda(sp, m, iters, free=False):
    if m == 2 and not free:
        # spectral domain (all 2 x 2 Gramians) with the eigenbasis hint: a variant of the code that goes through an SVD stays analysable
        G, hint, sig = spectral_gram(m)
        set_kernels(eigbasis=hint)
    else:
        set_kernels()
        G = free_gram(m)
    J = gram_only(G)
    eps = named("epsilon")
    assume(eps >= 0)
    out = MGDA(epsilon=eps, max_iters=iters)(J)
    a = out._w._flat()
    def cex(model):
        return dict(kind="mgda", iters=iters, **cex_values(model, G=G, epsilon=eps, alpha_model=a))
    q = lambda v: rsum(v[i] * v[j] * G[i][j] for i in range(m) for j in range(m))
    mean = [R(Fraction(1, m))] * m
    obs = [Ob("mgda_on_simplex", z3.And((rsum(a)).eqz(1), *[(x >= 0).z() for x in a]), cex),
           Ob("mgda_not_longer_than_mean", (q(a) <= q(mean)).z(), cex)]
    if m == 2:
        # exact min-norm point of the segment: minimise q((t, 1-t)), t in [0,1]
        g00, g01, g11 = G[0][0], G[0][1], G[1][1]
        den = g00 + g11 - 2 * g01  # |g0 - g1|^2 >= 0
        # optimality by the variational inequality: for every vertex e_k: (G a)_k >= a^T G a
        Ga = [rsum(G[k][j] * a[j] for j in range(2)) for k in range(2)]
        obs.append(Ob("mgda_m2_exact_min_norm_point", z3.And(*[(Ga[k] >= q(a)).z() for k in range(2)]), cex))
    return obs


# ------------------------------------------------------------------------------------------- Random
def case_random(sp, m):
    set_kernels()
    G = free_gram(m)
    J = gram_only(G)
    out = Random()(J)
    w = out._w._flat()
    def cex(model):
        return dict(kind="random", **cex_values(model, G=G, weights_model=w))
    return [Ob("random_strictly_positive_convex", z3.And(rsum(w).eqz(1), *[(x > 0).z() for x in w]), cex)]


# ------------------------------------------------------------------------------------------- GradDrop
def _graddrop_reference(J, U, leak, m, n):
    out = []
    for j in range(n):
        col = [J[i][j] for i in range(m)]
        sabs = rsum(x.abs() for x in col)
        if sabs == 0:
            out.append(R(0))
            continue
        P = (1 + rsum(col) / sabs) / 2
        keep_pos = P > U[j]
        keep_neg = P < U[j]
        tot = R(0)
        for i in range(m):
            kept = (bool(keep_pos) and bool(col[i] > 0)) or (bool(keep_neg) and bool(col[i] < 0))
            tot = tot + (col[i] if kept else leak[i] * col[i])
        out.append(tot)
    return out


def case_graddrop(sp, m, n):
    set_kernels()
    Jt, J = entry_matrix(m, n)
    with_leak = choice(2, "leak_configured")
    leak = [named(f"leak{i}") for i in range(m)] if with_leak else [R(0)] * m
    for l in leak:
        assume(l >= 0)
        assume(l <= 1)
    A = GradDrop(leak=T(leak) if with_leak else None)
    out = A(Jt)
    U = [R(z3.Real(f"U_unseeded0_{k + 1}")) for k in range(n)]
    # ties excluded (stated)
    for j in range(n):
        col = [J[i][j] for i in range(m)]
        sabs = rsum(x.abs() for x in col)
        if sabs != 0:
            assume(((1 + rsum(col) / sabs) / 2 != U[j]))
    exp = _graddrop_reference(J, U, leak, m, n)
    def cex(model):
        return dict(kind="graddrop", **cex_values(model, J=J, U=U, leak=leak if with_leak else None, out_model=out._flat(), out_expected=exp))
    return [Ob("graddrop_sign_consistent_sum_plus_leak", eq_all(out._flat(), exp), cex)]


# ------------------------------------------------------------------------------------------- CAGrad
def case_cagrad(sp, m, czero=False):
    G, hint, sig = spectral_gram(m)
    set_kernels(eigbasis=hint)
    sp.sqrt_candidates = [sig[k] / sig[0] for k in range(m)] if bool(sig[0] > 0) else []
    J = gram_only(G)
    c = R(0) if czero else named("c")
    eps = named("norm_eps")
    assume(eps > 0)
    if not czero:
        assume(c > 0)
    out = CAGrad(c=c, norm_eps=eps)(J)
    w = out._w._flat()
    q = lambda v: rsum(v[i] * v[j] * G[i][j] for i in range(m) for j in range(m))
    mean = [R(Fraction(1, m))] * m
    diff = [a - b for a, b in zip(w, mean)]
    # which branch did the code take?  (the weights are all zero on the 'approximately Pareto-stationary' branch)
    zero_branch = z3.And(*[x.eqz(0) for x in w])
    def cex(model):
        return dict(kind="cagrad", **cex_values(model, G=G, c=c, norm_eps=eps, weights_model=w))
    if czero:
        return [Ob("cagrad_c0_is_mean_or_stationary", z3.Or(eq_all(w, mean), zero_branch), cex)]
    return [Ob("cagrad_distance_is_c_norm_g0_or_stationary", z3.Or(q(diff).eqz(c * c * q(mean)), zero_branch), cex)]
