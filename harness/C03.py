"""C03 - UPGrad / DualProj return the exact (regularised) dual-cone projection."""
from harness.common import *
import numpy as np
from torchjd.aggregation import UPGrad, DualProj
from torchjd.aggregation._dual_cone_utils import _project_weight_vector

ASSUMPTIONS = [
    "decomposition: (1) WIRING - the real UPGrad/DualProj are executed on a Gram-only matrix from the spectral domain G = Q diag(sigma^2) Q^T (all m x m Gramians, m <= 3) with "
    "solve_qp replaced by a recorder returning fresh unconstrained values: which quadratic programs are posed (P, q, constraints, one per weight vector) and how their answers are "
    "combined is proved for ALL values; (2) KKT LEMMAS - the real _project_weight_vector is executed with the KKT contract stub on symbolic positive definite P: "
    "uniqueness of the solution (m = 2), 'no negative entry => v = u', 'P = reg_eps I => v = u'. The property's consequences follow by composing (1) and (2)",
    "s (the largest singular value) is the one returned by the svd kernel; linalg.svd is answered from the eigenbasis of the domain (column signs of U by free choice)",
    "pref vectors: symbolic non-negative, or None",
]


def bounds(tier):
    return dict(wiring=dict(m=[1, 2, 3], pref=["None", "symbolic >= 0"], norm_eps="symbolic > 0", reg_eps="symbolic > 0", svd_column_signs="all"),
                kkt=dict(m=[1, 2, 3], uniqueness_m=[2]))


def cases(tier):
    cs = []
    for agg in ("upgrad", "dualproj"):
        for m in (1, 2, 3):
            cs.append(dict(name=f"wiring_{agg}_m{m}", fn="wiring", args=dict(agg=agg, m=m), weight=m * m))
        cs.append(dict(name=f"bad_pref_{agg}", fn="bad_pref", args=dict(agg=agg)))
        for m in (1, 2):  # m = 3: z3 returns unknown on the degree-8 substitution (measured); covered by the wiring obligations + KKT lemmas
            cs.append(dict(name=f"projection_{agg}_m{m}", fn="projection", args=dict(agg=agg, m=m), weight=m ** 3))
    for m in (1, 2, 3):
        cs.append(dict(name=f"kkt_nonneg_m{m}", fn="kkt", args=dict(m=m, lemma="nonneg"), weight=m * 3))
        cs.append(dict(name=f"kkt_identity_m{m}", fn="kkt", args=dict(m=m, lemma="identity"), weight=m))
    cs.append(dict(name="kkt_unique_m2", fn="kkt", args=dict(m=2, lemma="unique"), weight=5))
    cs.append(dict(name="kkt_minimiser_m2", fn="kkt", args=dict(m=2, lemma="minimiser"), weight=5))
    return cs


def case_wiring(sp, agg, m):
    G, hint, sig = spectral_gram(m)
    calls = []
    def recorder(P, q, Gc, h, solver):
        k = len(calls)
        v = [fresh(f"v{k}_{i}") for i in range(P.shape[0])]
        calls.append(dict(P=tlist(P), q=q._flat(), G=tlist(Gc), h=h._flat(), v=v, solver=solver))
        return np.ndarray._make(v, (P.shape[0],), np.float64)
    set_kernels(eigbasis=hint, eig_signs=True, solve_qp=recorder)
    eps, reg = named("norm_eps"), named("reg_eps")
    assume(eps > 0)
    assume(reg > 0)
    with_pref = choice(2, "pref_vector") == 1
    u = [named(f"u{i}") for i in range(m)]
    for x in u:
        assume(x >= 0)
    cls = UPGrad if agg == "upgrad" else DualProj
    A = cls(pref_vector=T(u) if with_pref else None, norm_eps=eps, reg_eps=reg)
    out = A(gram_only(G))
    w = out._w._flat()
    uu = u if with_pref else [R(Fraction(1, m))] * m
    s = sig[0]
    big = bool(s >= eps)
    def cex(model):
        return dict(kind="dualcone_wiring", agg=agg, pref=with_pref, **cex_values(model, G=G, u=uu, norm_eps=eps, reg_eps=reg, weights_model=w))
    n_calls = m if agg == "upgrad" else 1
    obs = [Ob("number_of_quadratic_programs", len(calls) == n_calls, cex)]
    if len(calls) != n_calls:
        return obs
    expP = [[(G[i][j] / (s * s) if big else R(0)) + (reg if i == j else R(0)) for j in range(m)] for i in range(m)]
    for k, c in enumerate(calls):
        ucall = uu if agg == "dualproj" else [uu[i] if i == k else R(0) for i in range(m)]
        obs.append(Ob("qp_matrix_is_normalised_gramian_plus_reg_eps_identity", eq_all([x for r in c["P"] for x in r], [x for r in expP for x in r]), cex))
        obs.append(Ob("qp_linear_term_is_zero", eq_all(c["q"], [R(0)] * m), cex))
        # constraints G_c v <= h must describe exactly { v >= u_call }: G_c = -I, h = -u_call
        obs.append(Ob("qp_constraints_are_v_ge_u", z3.And(eq_all([x for r in c["G"] for x in r], [R(-1) if i == j else R(0) for i in range(m) for j in range(m)]),
                                                           eq_all(c["h"], [-x for x in ucall])), cex))
        obs.append(Ob("qp_solver_is_the_configured_one", c["solver"] == "quadprog", cex))
    comb = [rsum(c["v"][i] for c in calls) for i in range(m)]
    obs.append(Ob("weights_are_the_sum_of_the_projected_weight_vectors", eq_all(w, comb), cex))
    return obs


def case_projection(sp, agg, m):
    """end to end: the answers of the kernel (any KKT point of the program the code posed) are KKT points of the program the PROPERTY states
    (matrix G/s^2 + reg_eps I, resp. reg_eps I below norm_eps; constraint v >= u_call) and the weights are their sum.  With uniqueness (kkt_unique)
    this says A(J) is exactly the stated projection; a counterexample is a matrix on which the real output differs from it."""
    G, hint, sig = spectral_gram(m)
    set_kernels(eigbasis=hint)
    eps, reg = named("norm_eps"), named("reg_eps")
    assume(eps > 0)
    assume(reg > 0)
    with_pref = choice(2, "pref_vector") == 1
    u = [named(f"u{i}") for i in range(m)]
    for x in u:
        assume(x >= 0)
    cls = UPGrad if agg == "upgrad" else DualProj
    out = cls(pref_vector=T(u) if with_pref else None, norm_eps=eps, reg_eps=reg)(gram_only(G))
    w = out._w._flat()
    uu = u if with_pref else [R(Fraction(1, m))] * m
    s = sig[0]
    big = bool(s >= eps)
    P = [[(G[i][j] / (s * s) if big else R(0)) + (reg if i == j else R(0)) for j in range(m)] for i in range(m)]
    calls = [e for e in torch.EVENTS if e[0] == "kernel" and e[1] == "solve_qp"]
    def cex(model):
        return dict(kind="dualcone_wiring", agg=agg, pref=with_pref, **cex_values(model, G=G, u=uu, norm_eps=eps, reg_eps=reg, weights_model=w))
    n_calls = m if agg == "upgrad" else 1
    if len(calls) != n_calls:
        return [Ob("number_of_quadratic_programs", False, cex)]
    obs = []
    for k, e in enumerate(calls):
        v = e[3]._flat()
        ucall = uu if agg == "dualproj" else [uu[i] if i == k else R(0) for i in range(m)]
        mu = [rsum(P[i][j] * v[j] for j in range(m)) for i in range(m)]
        obs.append(Ob("kernel_answer_is_the_stated_projection", z3.And(*[(mu[i] >= 0).z() for i in range(m)], *[(v[i] >= ucall[i]).z() for i in range(m)],
                                                                       *[(mu[i] * (v[i] - ucall[i])).eqz(0) for i in range(m)]), cex))
    comb = [rsum(e[3]._flat()[i] for e in calls) for i in range(m)]
    obs.append(Ob("weights_are_the_sum_of_the_projected_weight_vectors", eq_all(w, comb), cex))
    return obs


def case_bad_pref(sp, agg):
    set_kernels()
    cls = UPGrad if agg == "upgrad" else DualProj
    obs = []
    G = free_gram(2)
    for n in (1, 3):
        try:
            cls(pref_vector=T([R(1)] * n))(gram_only(G))
            obs.append(Ob("wrong_length_pref_vector_rejected", False, lambda model, n=n: dict(kind="bad_pref", agg=agg, n=n)))
        except ValueError:
            obs.append(Ob("wrong_length_pref_vector_rejected", True))
    try:
        cls(pref_vector=T([[R(1), R(1)]]))
        obs.append(Ob("pref_vector_must_be_1d", False, lambda model: dict(kind="bad_pref", agg=agg, n=-1)))
    except ValueError:
        obs.append(Ob("pref_vector_must_be_1d", True))
    return obs


def _pd_matrix(m, name="p"):
    g = {}
    for i in range(m):
        for j in range(i, m):
            g[i, j] = g[j, i] = named(f"{name}{i}{j}")
    P = [[g[i, j] for j in range(m)] for i in range(m)]
    for k in range(1, m + 1):
        sub = [[P[a][b] for b in range(k)] for a in range(k)]
        assume(torch.linalg._det(sub) > 0)  # leading principal minors > 0  <=>  positive definite
    return P


def case_kkt(sp, m, lemma):
    set_kernels()
    u = [named(f"u{i}") for i in range(m)]
    for x in u:
        assume(x >= 0)
    if lemma == "identity":
        reg = named("reg_eps")
        assume(reg > 0)
        P = [[reg if i == j else R(0) for j in range(m)] for i in range(m)]
    else:
        P = _pd_matrix(m)
    Pn = np.array([[x for x in r] for r in P])
    un = np.array(list(u))
    v = _project_weight_vector(un, Pn, "quadprog")._flat()
    def cex(model):
        return dict(kind="kkt_lemma", lemma=lemma, **cex_values(model, P=P, u=u, v_model=v))
    if lemma == "nonneg":
        noconf = z3.And(*[(P[i][j] >= 0).z() for i in range(m) for j in range(i)]) if m > 1 else z3.BoolVal(True)
        return [Ob("no_negative_inner_product_implies_v_equals_u", z3.Implies(noconf, eq_all(v, u)), cex)]
    if lemma == "identity":
        return [Ob("below_norm_eps_the_projection_is_the_identity", eq_all(v, u), cex)]
    if lemma == "unique":
        sp.memo.clear()  # a second, independent answer of the kernel for the same arguments
        v2 = _project_weight_vector(un, Pn, "quadprog")._flat()
        return [Ob("kkt_point_is_unique", eq_all(v, v2), cex)]
    if lemma == "minimiser":
        # any feasible competitor has a larger or equal objective
        c = [named(f"c{i}") for i in range(m)]
        for i in range(m):
            assume(c[i] >= u[i])
        q = lambda x: rsum(x[i] * x[j] * P[i][j] for i in range(m) for j in range(m))
        return [Ob("kkt_point_minimises_the_quadratic", (q(v) <= q(c)).z(), cex)]
    raise KeyError(lemma)
