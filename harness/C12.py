"""C12 - default parameter discovery finds exactly the leaves that matter."""
from harness.autojac_common import *
from harness import C01
from torchjd.autojac import backward, mtl_backward
from torchjd.autojac._utils import _get_leaf_tensors
from torchjd.aggregation import Constant

ASSUMPTIONS = [
    "bounded exhaustive structural exploration (values play no role): all DAGs with 3 leaves (requires_grad flags by choice, one leaf never requiring grad), "
    "<= 2 intermediate ops (one of them with two outputs, one chain), 2 outputs, every non-empty input subset per op",
    "reference: reachability computed by an independent DFS over the program spec (a leaf matters iff it requires grad and some path of requires-grad edges leads from an output to it); "
    "for tasks_params the feature tensors are removed from the graph first",
    "end-to-end: the defaulted call and the explicit call with the reference set are run on twin programs with Constant(w), w symbolic, and every .grad is compared",
]


def bounds(tier):
    return dict(leaves=3, intermediate_ops="<= 2 (multi-output, chain)", outputs=2, edges="all non-empty subsets", mtl=dict(shared_leaves=2, features="1-2", tasks="2-3", leaf_reached_around_features=True))


def cases(tier):
    cs = []
    for ih in range(7):
        for rg in range(4):
            cs.append(dict(name=f"backward_h{ih}_rg{rg}", fn="bw", args={}, prefix=[ih, rg], weight=2))
    for v in range(8):
        cs.append(dict(name=f"mtl_v{v}", fn="mtl", args={}, prefix=[v], weight=2))
    cs.append(dict(name="graph_extended_in_place_between_calls", fn="extended", args={}, weight=2))
    for side in ("tasks_explicit", "shared_explicit"):
        cs.append(dict(name=f"mtl_mixed_{side}", fn="mtl_mixed", args=dict(side=side), weight=2))
    cs.append(dict(name="discovery_walk_is_linear", fn="walk", args={}, weight=1))
    return cs


def reference_leaves(spec, roots, excluded=()):
    """names of the leaves requiring grad reachable from `roots` through requires-grad edges, never walking THROUGH the excluded tensors"""
    rg = {n: r for n, _, r in spec["leaves"]}
    prod = {}
    for o in spec["ops"]:
        for k, (n, _) in enumerate(o["outs"]):
            prod[n] = o
    def requires(n):
        if n in rg:
            return rg[n]
        return any(requires(i) for i in prod[n]["inputs"])
    seen, out = set(), set()
    # torch: a multi-output op is one node; reaching any output walks all its inputs
    stack = [n for n in roots if n not in excluded]
    excluded_ops = {id(prod[e]) for e in excluded if e in prod}
    stack = [n for n in roots]
    while stack:
        n = stack.pop()
        if n in seen:
            continue
        seen.add(n)
        if n in rg:
            if rg[n]:
                out.add(n)
            continue
        if id(prod[n]) in excluded_ops:
            continue
        if not requires(n):
            continue
        for i in prod[n]["inputs"]:
            if requires(i):
                stack.append(i)
    return out


def case_bw(sp):
    set_kernels()
    hsub = C01.SUBSETS3[choice(7, "h_inputs")]
    rgc = choice(4, "requires_grad_flags")
    rg = {"a": True, "b": bool(rgc & 1), "c": bool(rgc & 2)}
    names = ["a", "b", "c", "h", "h2"]
    variant = choice(3, "variant")  # 0: single intermediate, 1: multi-output intermediate (h, h2), 2: chain h -> h2
    avail = 4 if variant == 0 else 5
    subs = [s for r in range(1, avail + 1) for s in itertools.combinations(range(avail), r)]
    subs = [s for s in subs if len(s) <= 3]
    y1sub = subs[choice(len(subs), "y1_inputs")]
    y2sub = [s for s in subs if 1 not in s][choice(len([s for s in subs if 1 not in s]), "y2_inputs")] if variant == 0 else [(3,), (4,), (0, 4), (2, 3, 4)][choice(4, "y2_inputs")]
    ops = []
    if variant == 0:
        ops.append(dict(name="fh", inputs=[names[i] for i in hsub], outs=[("h", (2,))], deps={(0, i) for i in range(len(hsub))}))
    elif variant == 1:
        ops.append(dict(name="fh", inputs=[names[i] for i in hsub], outs=[("h", (2,)), ("h2", ())], deps={(k, i) for k in range(2) for i in range(len(hsub))}))
    else:
        ops.append(dict(name="fh", inputs=[names[i] for i in hsub], outs=[("h", (2,))], deps={(0, i) for i in range(len(hsub))}))
        ops.append(dict(name="fh2", inputs=["h"], outs=[("h2", ())], deps={(0, 0)}))
    # optionally an EMPTY leaf (numel 0, e.g. the bias of Linear(n, 0)) feeds y1: it is a leaf the outputs were computed from like any other
    empty_leaf = choice(2, "empty_leaf_feeds_y1") == 1
    y1_in = [names[i] for i in y1sub] + (["e"] if empty_leaf else [])
    ops.append(dict(name="f1", inputs=y1_in, outs=[("y1", (2,))], deps={(0, i) for i in range(len(y1_in))}))
    ops.append(dict(name="f2", inputs=[names[i] for i in y2sub], outs=[("y2", ())], deps={(0, i) for i in range(len(y2sub))}))
    spec = dict(leaves=[("a", (2,), rg["a"]), ("b", (), rg["b"]), ("c", (2,), rg["c"])] + ([("e", (0,), True)] if empty_leaf else []), ops=ops)
    prog = Prog(spec)
    outs = ["y1", "y2"]
    if not all(prog[n].requires_grad for n in outs):
        raise symx.PathAbort("an output without grad_fn: the defaulted call is rejected by design")
    ref = reference_leaves(spec, outs)
    found = _get_leaf_tensors([prog[n] for n in outs], excluded=set())
    found_names = {t._name for t in found}
    def cex(model=None):
        return dict(kind="default_inputs", mode="backward", spec=spec_json(spec), outputs=outs, reference=sorted(ref), jac={} if model is None else jac_values(model, prog),
                    w=None if model is None else cex_values(model, w=[named(f"w{r}") for r in range(3)])["w"])
    obs = [Ob("leaf_discovery_equals_reachability", found_names == ref and len(found) == len(ref), cex)]
    if not ref:
        return obs
    # end to end: defaulted == explicit with the reference set
    w = [named(f"w{r}") for r in range(3)]
    p1, p2 = Prog(spec), Prog(spec)
    for p in (p1, p2):
        set_grad(p["a"], "a")
    _, failed = valid_call(lambda: backward([p1[n] for n in outs], Constant(T(w))), cex, "defaulted_call_succeeds_like_the_explicit_one")
    if failed:
        return obs + failed
    backward([p2[n] for n in outs], Constant(T(w)), inputs=[p2[n] for n in sorted(ref)])
    for n in p1.leaf_names():
        g1, g2 = grad_list(p1[n]), grad_list(p2[n])
        obs.append(Ob("defaulted_call_equals_explicit_call", (g1 is None and g2 is None) or (g1 is not None and g2 is not None and z3.is_true(z3.simplify(eq_all(g1, g2)))) or
                      (g1 is not None and g2 is not None and eq_all(g1, g2)), cex))
    return obs


def case_extended(sp):
    """two defaulted calls on the SAME tensor object whose graph was extended in place in between (y += g(b)): the second call must see the new leaf"""
    set_kernels()
    mode = choice(2, "backward_or_mtl")
    spec1 = dict(leaves=[("a", (2,), True), ("b", (2,), True), ("q", (), True)],
                 ops=[dict(name="f", inputs=["a"], outs=[("y", ())], deps={(0, 0)})])
    prog = Prog(spec1)
    a, b, q, y = prog["a"], prog["b"], prog["q"], prog["y"]
    w = [named("w0")]
    def cex(model=None):
        return dict(kind="default_inputs_extended", mode=["backward", "mtl"][mode])
    if mode == 0:
        backward([y], Constant(T(w)), retain_graph=True)
    else:
        # feature = y's input side: use a trunk/head split  a -> f(eature) -> loss
        pass
    # extend the graph of the very same tensor object: y <- g(y_old, b)   (what `y += h(b)` does in torch)
    y_old = torch.Tensor(y._storage, y.shape, y._strides, y._offset, y.dtype, y.kind)
    y_old.requires_grad, y_old.grad_fn, y_old._op, y_old._out_nr = True, y.grad_fn, y._op, y._out_nr
    jac = {(0, 0): [[named("E_0")]], (0, 1): [[named("E_b0"), named("E_b1")]]}
    (y_new,) = torch.autograd.op([y_old, b], [()], jac, name="inplace_add")
    y.grad_fn, y._op, y._out_nr = y_new.grad_fn, y_new._op, 0
    y._op.outputs[0] = y
    gb_before = grad_list(b)
    found = {t._name for t in _get_leaf_tensors([y], excluded=set())}
    obs = [Ob("leaf_discovery_after_in_place_extension", found == {"a", "b"}, cex)]
    backward([y], Constant(T(w)), retain_graph=True)
    obs.append(Ob("new_leaf_receives_its_gradient_on_the_second_call", gb_before is None and grad_list(b) is not None, cex))
    return obs


def case_mtl(sp):
    set_kernels()
    v = choice(8, "variant")
    # shared leaves p0, p1; a leaf r not requiring grad; task leaves q0, q1; optional leaf reached both through and around the features
    around = v in (1, 4)        # head 1 (the LAST task) also uses p1 directly  -> default sets overlap -> ValueError
    around0 = v in (6, 7)       # head 0 (NOT the last task) also uses p1 directly
    two = v in (2, 3, 4, 5, 7)  # two features
    deep = v in (3, 5)          # feature computed through an intermediate trunk node
    leaves = [("p0", (2,), True), ("p1", (), True), ("r", (2,), False), ("q0", (2,), True), ("q1", (), True)]
    ops = []
    if deep:
        ops.append(dict(name="pre", inputs=["p0", "r"], outs=[("t0", (2,))], deps={(0, 0), (0, 1)}))
        ops.append(dict(name="trunk1", inputs=["t0", "p1"], outs=[("f1", (2,))], deps={(0, 0), (0, 1)}))
    else:
        ops.append(dict(name="trunk1", inputs=["p0", "p1", "r"], outs=[("f1", (2,))], deps={(0, 0), (0, 1), (0, 2)}))
    feats = ["f1"]
    if two:
        ops.append(dict(name="trunk2", inputs=["p0"], outs=[("f2", ())], deps={(0, 0)}))
        feats.append("f2")
    h0_in = ["f1", "q0"] + (["r"] if choice(2, "head0_uses_r") else []) + (["p1"] if around0 else [])
    h1_in = (["f2"] if two else ["f1"]) + ["q1"] + (["p1"] if around else []) + (["q0"] if choice(2, "q0_shared_by_heads") else [])
    ops.append(dict(name="mid0", inputs=h0_in, outs=[("m0", (2,))], deps={(0, i) for i in range(len(h0_in))}))
    ops.append(dict(name="head0", inputs=["m0"], outs=[("loss0", ())], deps={(0, 0)}))
    ops.append(dict(name="head1", inputs=h1_in, outs=[("loss1", ())], deps={(0, i) for i in range(len(h1_in))}))
    spec = dict(leaves=leaves, ops=ops)
    losses = ["loss0", "loss1"]
    ref_shared = reference_leaves(spec, feats)
    ref_tasks = [reference_leaves(spec, [l], excluded=feats) for l in losses]
    overlap = bool(ref_shared & set().union(*ref_tasks))
    w = [named(f"w{r}") for r in range(2)]
    p1, p2 = Prog(spec), Prog(spec)
    def cex(model=None):
        return dict(kind="default_inputs", mode="mtl", spec=spec_json(spec), losses=losses, features=feats, reference_shared=sorted(ref_shared),
                    reference_tasks=[sorted(x) for x in ref_tasks], jac={} if model is None else jac_values(model, p1),
                    w=None if model is None else cex_values(model, w=w)["w"])
    found_sh = {t._name for t in _get_leaf_tensors([p1[f] for f in feats], excluded=[])}
    found_tk = [{t._name for t in _get_leaf_tensors([p1[l]], excluded=[p1[f] for f in feats])} for l in losses]
    obs = [Ob("shared_default_equals_reachability_from_features", found_sh == ref_shared, cex),
           Ob("task_default_equals_reachability_without_passing_features", found_tk == ref_tasks, cex)]
    try:
        mtl_backward([p1[l] for l in losses], [p1[f] for f in feats], Constant(T(w)))
        raised = False
    except ValueError:
        raised = True
    except RuntimeError:
        raised = "late"  # not rejected for its arguments: it failed somewhere inside the differentiation
    obs.append(Ob("overlapping_default_sets_rejected", raised == overlap, cex))
    if raised or overlap:
        return obs
    # mixed call: shared_params defaulted, tasks_params explicit and PARTIAL (first task lists nothing): the omitted head leaves get nothing
    p3 = Prog(spec)
    partial = [[]] + [[p3[n] for n in sorted(x)] for x in ref_tasks[1:]]
    mtl_backward([p3[l] for l in losses], [p3[f] for f in feats], Constant(T(w)), tasks_params=partial)
    p4 = Prog(spec)
    mtl_backward([p4[l] for l in losses], [p4[f] for f in feats], Constant(T(w)), tasks_params=[[]] + [[p4[n] for n in sorted(x)] for x in ref_tasks[1:]],
                 shared_params=[p4[n] for n in sorted(ref_shared)])
    for n in p3.leaf_names():
        g3, g4 = grad_list(p3[n]), grad_list(p4[n])
        obs.append(Ob("explicit_tasks_params_respected_when_shared_params_defaulted", (g3 is None and g4 is None) or (g3 is not None and g4 is not None and eq_all(g3, g4)), cex))
    mtl_backward([p2[l] for l in losses], [p2[f] for f in feats], Constant(T(w)), tasks_params=[[p2[n] for n in sorted(x)] for x in ref_tasks],
                 shared_params=[p2[n] for n in sorted(ref_shared)])
    for n in p1.leaf_names():
        g1, g2 = grad_list(p1[n]), grad_list(p2[n])
        obs.append(Ob("mtl_defaulted_call_equals_explicit_call", (g1 is None and g2 is None) or (g1 is not None and g2 is not None and eq_all(g1, g2)), cex))
    return obs


def case_mtl_mixed(sp, side):
    """ONE of the two parameter arguments is defaulted, the other is explicit and arbitrary (the reference set, a subset of it, or the reference set plus
    a leaf of the OTHER kind - a tied weight): the call must behave exactly as the call in which the defaulted argument is replaced by its reference
    set - same rejection (ValueError for an overlap), same .grad fields."""
    set_kernels()
    tied = choice(2, "task0_reads_a_shared_leaf_directly")  # then the default sets overlap already
    leaves = [("p0", (2,), True), ("p1", (), True), ("q0", (2,), True), ("q1", (), True)]
    ops = [dict(name="trunk", inputs=["p0", "p1"], outs=[("f", (2,))], deps={(0, 0), (0, 1)}),
           dict(name="head0", inputs=["f", "q0"] + (["p1"] if tied else []), outs=[("loss0", ())], deps={(0, i) for i in range(3 if tied else 2)}),
           dict(name="head1", inputs=["f", "q1"], outs=[("loss1", ())], deps={(0, 0), (0, 1)})]
    spec = dict(leaves=leaves, ops=ops)
    losses, feats = ["loss0", "loss1"], ["f"]
    ref_shared = sorted(reference_leaves(spec, feats))
    ref_tasks = [sorted(reference_leaves(spec, [l], excluded=feats)) for l in losses]
    w = [named(f"w{r}") for r in range(2)]
    if side == "tasks_explicit":
        extra = [None, "p0", "p1"][choice(3, "shared_leaf_also_listed_in_a_task")]
        k = choice(2, "in_task")
        drop = choice(2, "task_list_is_partial")
        explicit = [list(t) for t in ref_tasks]
        if drop:
            explicit[1 - k] = []
        if extra is not None and extra not in explicit[k]:
            explicit[k] = explicit[k] + [extra]
        kw_a = lambda p: dict(tasks_params=[[p[n] for n in t] for t in explicit])
        kw_b = lambda p: dict(tasks_params=[[p[n] for n in t] for t in explicit], shared_params=[p[n] for n in ref_shared])
    else:
        extra = [None, "q0", "q1"][choice(3, "task_leaf_also_listed_as_shared")]
        drop = choice(2, "shared_list_is_partial")
        explicit = [n for n in ref_shared if not (drop and n == "p0")] + ([extra] if extra else [])
        kw_a = lambda p: dict(shared_params=[p[n] for n in explicit])
        kw_b = lambda p: dict(shared_params=[p[n] for n in explicit], tasks_params=[[p[n] for n in t] for t in ref_tasks])
    pa, pb = Prog(spec), Prog(spec)
    def cex(model=None):
        return dict(kind="mixed_defaults", spec=spec_json(spec), losses=losses, features=feats, side=side, explicit=explicit,
                    jac={} if model is None else jac_values(model, pa), w=None if model is None else cex_values(model, w=w)["w"])
    def run(p, kw):
        try:
            mtl_backward([p[l] for l in losses], [p[f] for f in feats], Constant(T(w)), **kw)
            return "ok"
        except ValueError:
            return "ValueError"
        except RuntimeError:
            return "RuntimeError"
    ra, rb = run(pa, kw_a(pa)), run(pb, kw_b(pb))
    obs = [Ob("half_defaulted_call_rejected_iff_its_explicit_twin_is", ra == rb, cex)]
    for n in pa.leaf_names():
        ga, gb = grad_list(pa[n]), grad_list(pb[n])
        obs.append(Ob("half_defaulted_call_equals_its_explicit_twin", (ga is None and gb is None) or (ga is not None and gb is not None and eq_all(ga, gb)), cex))
    return obs


def case_walk(sp):
    """'behaves exactly as if inputs were given' includes returning: on k stacked diamonds (h' = f(h, g(h))) the number of paths from the output to the
    leaf is 2^k, so a discovery that does not mark visited nodes does not terminate in practice.  Counted in the model: reads of `next_functions`
    during the discovery are at most 4 x (number of graph nodes + 1), for k = 2..14 (2^k for a walk without visited marks)."""
    from torch.autograd.graph import Node
    k = 2 + choice(13, "depth")
    leaves = [("p", (2,), True)]
    ops, prev = [], "p"
    for i in range(k):
        ops.append(dict(name=f"g{i}", inputs=[prev], outs=[(f"u{i}", (2,))], deps={(0, 0)}))
        ops.append(dict(name=f"f{i}", inputs=[prev, f"u{i}"], outs=[(f"h{i}", (2,))], deps={(0, 0), (0, 1)}))
        prev = f"h{i}"
    spec = dict(leaves=leaves, ops=ops)
    prog = Prog(spec)
    Node.NF_READS = 0
    found = {t._name for t in _get_leaf_tensors([prog[prev]], excluded=[])}
    reads = Node.NF_READS
    nodes = len(ops) + len(leaves)
    def cex(model=None):
        return dict(kind="walk_complexity", depth=k, reads=reads, nodes=nodes)
    return [Ob("discovery_finds_the_leaf", found == {"p"}, cex), Ob("discovery_reads_each_node_a_bounded_number_of_times", reads <= 4 * nodes + 4, cex)]
