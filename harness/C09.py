"""C09 - linear under scaling: each gradient weighs in proportionally to its norm."""
from harness.common import *
from harness.C08 import equivariant_pinv
from torchjd.aggregation import Mean, Sum, Constant, ConFIG, PCGrad, Random

ASSUMPTIONS = [
    "self-composition of three runs on diag(c1) J, diag(c2) J and diag(a c1 + b c2) J with symbolic positive c1, c2, a, b on the same path; "
    "Gram-only runs (Gramian D G D) compare the coefficient vectors c * w(c) on the ORIGINAL rows: delta^T G delta == 0 for delta = x(c3) - a x(c1) - b x(c2)",
    "PCGrad / Random under a fixed seed: the three runs read the same symbolic stream (same projection orders - all orders explored - and the same Gaussian draws)",
    "ConFIG: entry-level (m = n = 2); pinv is an arbitrary kernel that returns the same answer for (provably) equal arguments: the unit rows do not depend on c",
    "UPGrad's clause (defect <= const * sqrt(reg_eps) * s * |w|, vanishing as reg_eps -> 0) is an analytic bound with an unspecified constant and a limit: OUTSIDE this technique; not claimed",
]


def bounds(tier):
    return dict(linear_aggregators=dict(m=[1, 2, 3], n=[1, 2, 3]), pcgrad_m=[2] + ([3] if tier == "thorough" else []), random_m=[1, 2, 3], config=dict(m=2, n=2))


def cases(tier):
    cs = []
    for a in ("mean", "sum", "constant", "random"):
        for m in (1, 2, 3):
            cs.append(dict(name=f"{a}_m{m}", fn="gram", args=dict(agg=a, m=m), weight=m))
    cs.append(dict(name="pcgrad_m2", fn="gram", args=dict(agg="pcgrad", m=2), weight=6))
    if tier == "thorough":
        for a in range(3):
            for b in range(2):
                cs.append(dict(name=f"pcgrad_m3_{a}{b}", fn="gram", args=dict(agg="pcgrad", m=3), prefix=[a, b], weight=20, budget_s=1500))
    cs.append(dict(name="config_2x2", fn="config", args={}, weight=10))
    for a in ("mean", "sum", "constant"):
        cs.append(dict(name=f"{a}_entry", fn="entry", args=dict(agg=a), weight=2))
    return cs


def _scales(m):
    c1 = [named(f"c1_{i}") for i in range(m)]
    c2 = [named(f"c2_{i}") for i in range(m)]
    a, b = named("a"), named("b")
    for x in c1 + c2 + [a, b]:
        assume(x > 0)
    c3 = [a * x + b * y for x, y in zip(c1, c2)]
    return c1, c2, c3, a, b


def _mk(agg, m):
    if agg == "mean":
        return Mean()
    if agg == "sum":
        return Sum()
    if agg == "constant":
        return Constant(T([named(f"cw{i}") for i in range(m)]))
    if agg == "random":
        return Random()
    if agg == "pcgrad":
        return PCGrad()
    raise KeyError(agg)


def case_gram(sp, agg, m):
    set_kernels()
    if agg == "pcgrad":
        # draw the projection orders FIRST so that they can be used as a case prefix; the three runs replay the same stream
        torch.manual_seed(0)
        for _ in range(m):
            torch.randperm(m)
    G = free_gram(m, nonzero_rows=(agg == "pcgrad"))
    c1, c2, c3, a, b = _scales(m)
    A = _mk(agg, m)
    xs = []
    for c in (c1, c2, c3):
        Gc = [[c[i] * c[j] * G[i][j] for j in range(m)] for i in range(m)]
        torch.manual_seed(0)
        w = A(gram_only(Gc))._w._flat()
        xs.append([c[i] * w[i] for i in range(m)])
    delta = [xs[2][i] - a * xs[0][i] - b * xs[1][i] for i in range(m)]
    q = rsum(delta[i] * delta[j] * G[i][j] for i in range(m) for j in range(m))
    def cex(model):
        return dict(kind="scaling_linear", agg=agg, **cex_values(model, G=G, c1=c1, c2=c2, a=a, b=b, cw=[named(f"cw{i}") for i in range(m)]))
    return [Ob(f"linear_under_row_scaling[{agg}]", q.eqz(0), cex)]


def case_config(sp):
    set_kernels()
    m = n = 2
    Jt, J = entry_matrix(m, n)
    c1, c2, c3, a, b = _scales(m)
    pref = choice(2, "pref")
    u = [named(f"u{i}") for i in range(m)]
    st = equivariant_pinv(sp, [(lambda U0: U0, lambda X0: X0)])
    A = ConFIG(pref_vector=T(u) if pref else None)
    # non-zero rows: the unit vectors are defined
    for i in range(m):
        assume(dot(J[i], J[i]) > 0)
    outs = [A(T([[c[i] * x for x in J[i]] for i in range(m)]))._flat() for c in (c1, c2, c3)]
    def cex(model):
        return dict(kind="scaling_linear_entry", agg="config", **cex_values(model, J=J, c1=c1, c2=c2, a=a, b=b, pref=u if pref else None))
    if any(isinstance(x, Sp) for o in outs for x in o):
        return [Ob("finite[config]", False, cex)]
    obs = [Ob("linear_under_row_scaling[config]", eq_all(outs[2], [a * x + b * y for x, y in zip(outs[0], outs[1])]), cex)]
    # the matrix handed to the pseudo-inverse consists of the UNIT rows of diag(c) J, whatever the (positive) scaling: this is what makes ConFIG linear in c
    for run, (c, arg) in enumerate(zip((c1, c2, c3), st["args"])):
        for i in range(m):
            nrm = dot(J[i], J[i]).sqrt() * c[i]
            obs.append(Ob("config_normalises_every_nonzero_row", eq_all([x * nrm for x in arg[i]], [c[i] * x for x in J[i]]), cex))
    return obs


def case_entry(sp, agg):
    set_kernels()
    m, n = 1 + choice(3, "m"), 1 + choice(3, "n")
    Jt, J = entry_matrix(m, n)
    c1, c2, c3, a, b = _scales(m)
    A = _mk(agg, m)
    outs = [A(T([[c[i] * x for x in J[i]] for i in range(m)]))._flat() for c in (c1, c2, c3)]
    def cex(model):
        return dict(kind="scaling_linear_entry", agg=agg, **cex_values(model, J=J, c1=c1, c2=c2, a=a, b=b, cw=[named(f"cw{i}") for i in range(m)]))
    return [Ob(f"linear_under_row_scaling[{agg}]", eq_all(outs[2], [a * x + b * y for x, y in zip(outs[0], outs[1])]), cex)]
