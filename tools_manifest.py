"""Regenerates MANIFEST.json from the harness modules present (run: python3-vt tools_manifest.py)."""
import json, os, importlib, sys
HERE = os.path.dirname(os.path.abspath(__file__))
sys.path[:0] = [HERE, os.path.join(HERE, "symtorch"), "/repo/src"]
TITLES = {}
for l in open(os.path.join(HERE, "properties.jsonl")):
    d = json.loads(l)
    TITLES[d["id"]] = d["title"]
LEVEL = {
 "C01": ("bounded symbolic execution of the real backward() pipeline on a symbolic autograd model; every obligation (matrix given to the aggregator == true Jacobian, deposited slices) is a polynomial identity over free local Jacobians decided by z3 for ALL values; graph shapes / tensor shapes / orders / chunk sizes are enumerated exhaustively inside the stated bounds", "3 C01"),
 "C02": ("same as C01 for mtl_backward on trunk/heads programs (row order of tasks, per-task gradients, column slices)", "3 C02"),
 "C03": ("symbolic execution of UPGrad/DualProj with contract stubs for svd and solve_qp: wiring obligations (what QP is posed, how its answers are combined) and KKT consequences decided by z3 (QF_NRA) over all Gramians of the spectral domain", "2 C03"),
 "C04": ("symbolic execution + z3: non-conflict inequalities derived from the KKT contract (UPGrad/DualProj), Frank-Wolfe invariants (MGDA), first-order optimality of the cvxpy stub (CAGrad)", "2 C04"),
 "C05": ("differential symbolic execution: real Constant/Sum/Mean + backward/mtl_backward vs the model's torch.autograd.backward on a twin graph; equalities of polynomials in the local Jacobians decided by z3", "3 C05"),
 "C06": ("symbolic execution of call histories with a storage/aliasing model; value obligations decided by z3, aliasing/identity obligations by the environment's event log", "3 C06"),
 "C07": ("exhaustive symbolic execution over all (rows, chunk) pairs with sweep events observed in the environment model; update equality across chunk sizes decided by z3", "3 C07"),
 "C08": ("Gram-only execution (the matrix can only be read through its Gramian / row combinations) is itself the proof obligation for 'row span + Gramian only'; orthogonal-invariance lemma and column-permutation / zero-column clauses decided by z3", "2 C08"),
 "C09": ("self-composition of three runs (c1, c2, a c1 + b c2) on the same path; linearity obligations decided by z3 (QF_NRA)", "2 C09"),
 "C10": ("self-composition of two runs (J and row-permuted J) on the same path for the generators of S_m; equality of the two combinations decided by z3", "2 C10"),
 "C11": ("symbolic execution per aggregator: totality (no IEEE special reaches the output, only documented ValueErrors), rejections, purity (no storage write), statelessness and homogeneity by self-composition, decided by z3", "2 C11"),
 "C12": ("bounded-exhaustive symbolic execution over DAG shapes: traversal result vs independent reachability; defaulted call vs explicit call compared symbolically", "3 C12"),
 "C13": ("symbolic execution with a freed-node model: freed sets and follow-up outcomes compared with the model's torch.autograd on twin graphs", "3 C13"),
 "C14": ("inductive bounded-exhaustive execution: combinators run with arbitrary contract-satisfying children over a 3-key universe (depth is not a bound)", "3 C14"),
 "C15": ("symbolic execution of each transform alone with symbolic cotangents and local Jacobians; reference formulas over solver terms, identities decided by z3", "3 C15"),
 "C16": ("symbolic execution with sort/topk as sorting networks / axiomatised permutations: order-statistic and robustness obligations decided by z3 (QF_LRA) for ALL real matrices of the bounded shapes", "2 C16"),
 "C17": ("symbolic execution with pinv / eigh contract stubs on full-rank domains; equal-projection / equal-cosine / balance identities decided by z3 (QF_NRA)", "2 C17"),
 "C18": ("symbolic execution over Gram-only / entry-level domains with ALL projection orders and random draws as symbolic stream contents; defining equations decided by z3", "2 C18"),
 "C19": ("symbolic execution of call/reset histories with the cvxpy solve as an uninterpreted deterministic function; schedule, reset-equivalence and norm bound decided by z3", "2 C19"),
 "C20": ("bounded-exhaustive symbolic execution over every kind and position of invalid argument and every set iteration order; .grad write log must be empty when the call raises", "3 C20"),
}
checks, na = [], []
for pid in sorted(TITLES):
    if os.path.exists(os.path.join(HERE, "harness", f"{pid}.py")):
        mod = importlib.import_module(f"harness.{pid}")
        text, ref = LEVEL[pid]
        checks.append(dict(
            property_id=pid,
            quick_cmd=f"./check {pid} --tier quick",
            thorough_cmd=f"./check {pid} --tier thorough",
            evidence_file=f"evidence/{pid}.json",
            replay_cmd_template="./check --replay {path}",
            engine="symx",
            technique="bounded symbolic execution of torchjd's own source (path forking on z3 feasibility, exact reals) against a modelled torch; obligations discharged by z3 (QF_NRA/QF_LRA); counterexamples replayed on the real stack",
            level_claimed=dict(category="model_checking", text=text, design_ref=f"DESIGN.md section {ref}"),
            level_note="; ".join(getattr(mod, "ASSUMPTIONS", []))[:1800] + " | common: exact reals instead of floats; torch/numpy/qpsolvers/cvxpy replaced by /verif/symtorch (validated, not proved); kernels are contract stubs; bounds in evidence.coverage.bounds",
        ))
    else:
        na.append(dict(property_id=pid, reason="harness under construction in this session (the property is reachable by the technique, see DESIGN.md); not claimed until its check is committed"))
man = dict(
    version=1,
    setup_cmd="python3-vt -m compileall -q symx symtorch harness replay validate driver.py && python3-vt selftest.py && python3-vt validate/run.py",
    hooks=dict(guard="TORCHJD_VERIF", enable="no hooks: observation happens in the environment model /verif/symtorch (nothing in /repo is instrumented)",
               baseline_off_cmd="cd /repo && /venv/bin/python -m pytest -ra -q -p no:cacheprovider --timeout=900 --continue-on-collection-errors", source_commits=[], add_only=True),
    engines=[dict(name="symx", path="symx/", serves_properties=[c["property_id"] for c in checks],
                  kind_free_text="path-forking symbolic executor (DFS over a decision trail, re-execution) over z3 5.1 with exact fraction-free reals; environment model of torch/numpy/qpsolvers/cvxpy in symtorch/; real-stack replay in replay/")],
    checks=checks,
    notes="exit codes: 0 held, 1 VIOLATION (only after the counterexample reproduced on the real stack), 2 inconclusive. known_findings.json lists genuine defects (fixed: entries suppress nothing).",
    not_applicable=na,
)
json.dump(man, open(os.path.join(HERE, "MANIFEST.json"), "w"), indent=1)
print(len(checks), "checks;", len(na), "not claimed")
