"""setup self-test: the engine, the environment model and the real torchjd sources load and one tiny obligation is decided."""
import os, sys
HERE = os.path.dirname(os.path.abspath(__file__))
sys.path[:0] = [HERE, os.path.join(HERE, "symtorch"), os.path.join(os.environ.get("VERIF_REPO", "/repo"), "src")]
import symx, z3, torch
from symx import Ob, named
import torchjd
from torchjd.aggregation import Mean
assert "symtorch" in torch.__file__, torch.__file__
def run(sp):
    J = torch.tensor([[named("a"), named("b")], [named("c"), named("d")]])
    out = Mean()(J)._flat()
    return [Ob("mean", (out[0] * 2).eqz(named("a") + named("c")))]
st = symx.explore(run)
assert st["paths"] == 1 and st["discharged"] == 1 and not st["cex"], st
def bad(sp):
    x = named("x")
    return [Ob("false", (x * x).eqz(-1))]
st = symx.explore(bad)
assert len(st["cex"]) == 1, "a violated obligation must yield a counterexample"
print("selftest ok: z3", z3.get_version_string(), "torchjd from", os.path.dirname(torchjd.__file__))
