"""Regenerates /verif/seeded/README.md from the meta.json files."""
import glob, json, os, re
rows = []
for d in sorted(glob.glob("/verif/seeded/*/")):
    mp = os.path.join(d, "meta.json")
    if not os.path.exists(mp):
        continue
    m = json.load(open(mp))
    name = os.path.basename(d.rstrip("/"))
    res = []
    notes = [c for c in m.get("checks_run", []) if ":exit" not in c]
    for c in m.get("checks_run", []):
        if ":exit" not in c:
            continue
        pid, ex = c.split(":exit")
        log = os.path.join(d, f"check_{pid}.log")
        obl = ""
        if os.path.exists(log):
            mm = re.findall(r"obligation=(\S+)", open(log).read())
            obl = ", ".join(sorted(set(mm))[:3])
        clean = " (its counterexample does not reproduce on the unchanged tree)" if f"{pid}:cex-clean-on-unchanged-tree" in notes else (
            " (**ITS COUNTEREXAMPLE ALSO REPRODUCES ON THE UNCHANGED TREE**)" if f"{pid}:cex-reproduces-on-clean-tree" in notes else "")
        res.append(f"{pid}: {'**VIOLATION**' if ex == '1' else ('held (missed)' if ex == '0' else 'inconclusive (exit 2)')}" + (f" [{obl}]" if obl else "") + clean)
    conf = m.get("confirmed", {})
    rows.append(f"| {name} | {m.get('property')} | {(m.get('summary') or '').replace('|', '/')[:260]} | {(m.get('needs') or '').replace('|', '/')[:260]} | {conf.get('tests_with_change', '')[:12]}; demo {conf.get('demo_exit_with_change')}/{conf.get('demo_exit_without_change')} | {'<br>'.join(res)} |")
hdr = """# Seeded changes

Each directory holds `patch.diff` (the change, against /repo HEAD at the time), `demo.py` (fails with the change, passes without), `meta.json`
(what it breaks, what it needs to manifest, what was run) and the check logs. The changes were written by independent sub-agents that were
given only the text of one property and a scratch worktree. `confirmed` = full test suite result with the change; demo exit code with / without.
A check *catches* a change only if it exits 1 with a VIOLATION line (the counterexample reproduced on the real stack).

| id | property | change | needs | confirmed | checks |
|---|---|---|---|---|---|
"""
open("/verif/seeded/README.md", "w").write(hdr + "\n".join(rows) + "\n")
print(len(rows), "seeded changes")
