#!/bin/bash
# usage: tools_benign.sh <dir-with-refactor.patch> <name> [check ids...]
# Runs quick checks against a BEHAVIOUR-PRESERVING change applied in a scratch worktree of /repo (VERIF_REPO); every check is expected to exit 0.
# Default check list: every check whose subject (aggregation / autojac) the patch touches.
set -u
DIR=$1; NAME=$2; shift 2
EVAL=/tmp/verif_ben_$NAME
OUT=/verif/benign/$NAME
mkdir -p $OUT
cp $DIR/refactor.patch $OUT/patch.diff
[ -f $DIR/meta.json ] && cp $DIR/meta.json $OUT/meta_agent.json
CHECKS="$@"
if [ -z "$CHECKS" ]; then
  grep -q "^+++ b/src/torchjd/aggregation" $OUT/patch.diff && CHECKS="$CHECKS C03 C04 C08 C09 C10 C11 C16 C17 C18 C19"
  grep -q "^+++ b/src/torchjd/autojac" $OUT/patch.diff && CHECKS="$CHECKS C01 C02 C05 C06 C07 C12 C13 C14 C15 C20"
fi
git -C /repo worktree remove --force $EVAL 2>/dev/null
git -C /repo worktree add -q $EVAL HEAD || exit 9
git -C $EVAL apply $OUT/patch.diff || { echo "patch does not apply"; git -C /repo worktree remove --force $EVAL; exit 9; }
T=$(cd $EVAL && PYTHONPATH=$EVAL/src /venv/bin/python -m pytest -q -p no:cacheprovider --timeout=900 -n 8 2>&1 | tail -1)
echo "tests with change: $T"
RES=""
for C in $CHECKS; do
  (cd /verif && VERIF_CEX_DIR=/tmp/verif_cex_ben_$NAME VERIF_REPO=$EVAL timeout 3000 ./check $C --tier quick --no-evidence > $OUT/check_$C.log 2>&1); RC=$?
  echo "check $C: exit $RC $(grep -E '^\[C' $OUT/check_$C.log | tail -1 | sed 's/.*status=/status=/')"
  RES="$RES $C:exit$RC"
  [ $RC -eq 0 ] && rm -f $OUT/check_$C.log
done
git -C /repo worktree remove --force $EVAL
rm -rf /tmp/verif_cex_ben_$NAME
python3 - "$NAME" "$T" "$RES" <<'PY'
import json,sys
name,t,res=sys.argv[1:4]
json.dump(dict(name=name, tests_with_change=t, checks_run=res.split(), expectation="every check exits 0 (behaviour-preserving change)"), open(f'/verif/benign/{name}/meta.json','w'), indent=1)
PY
