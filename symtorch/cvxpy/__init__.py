"""cvxpy model: the tiny expression language torchjd uses + two contract stubs for Problem.solve.

(1) problems WITHOUT Parameters whose feasible set is the probability simplex and whose objective is
    affine + sum_k kappa_k * ||affine_k||_2  (CAGrad): the Variable receives fresh values constrained by
    feasibility and by first-order optimality  grad F(w).(e_i - w) >= 0 for all i  (only when every norm is
    non-zero at w; otherwise feasibility alone - a weaker contract, hence sound);
(2) problems WITH Parameters (NashMTL): `solve` is an UNINTERPRETED DETERMINISTIC function of the parameter
    values and of the warm-start value of the variables; it may also raise SolverError.  Determinism is the
    only assumption (equal arguments => equal outcome and equal result)."""
import z3

import symx
from symx import B, R, Sp, ShimUnsupported
import numpy as np
from _core import log as _elog, _sum, _numel

CLARABEL = "CLARABEL"
ECOS = "ECOS"
SCS = "SCS"
OSQP = "OSQP"


class SolverError(Exception):
    pass


class error:
    SolverError = SolverError


def _wrap(x):
    if isinstance(x, Expression):
        return x
    if isinstance(x, np.ndarray):
        return Constant(x)
    if isinstance(x, (int, float, R)):
        return Constant(np.array(x) if not isinstance(x, R) else np.ndarray._make([x], (), np.float64))
    raise TypeError(f"cvxpy: cannot use {type(x).__name__} in an expression")


def _mm_shape(a, b):
    if len(a) == 0 or len(b) == 0:
        raise ValueError("Scalar operands are not allowed, use '*' instead")
    if len(a) == 1 and len(b) == 1:
        if a != b:
            raise ValueError(f"Incompatible dimensions {a} {b}")
        return ()
    if len(a) == 2 and len(b) == 1:
        if a[1] != b[0]:
            raise ValueError(f"Incompatible dimensions {a} {b}")
        return (a[0],)
    if len(a) == 1 and len(b) == 2:
        if a[0] != b[0]:
            raise ValueError(f"Incompatible dimensions {a} {b}")
        return (b[1],)
    if a[1] != b[0]:
        raise ValueError(f"Incompatible dimensions {a} {b}")
    return (a[0], b[1])


def _bc(a, b):
    from _core import _bshape
    try:
        return tuple(_bshape(a, b))
    except RuntimeError:
        raise ValueError(f"Cannot broadcast dimensions {a} {b}")


class Expression:
    op = "?"
    args = ()
    shape = ()

    # --- structure
    def key(self):
        return f"{self.op}{tuple(self.shape)}(" + ",".join(a.key() for a in self.args) + ")"

    def leaves(self, cls):
        out = []
        def rec(e):
            if isinstance(e, cls) and not any(e is x for x in out):
                out.append(e)
            for a in e.args:
                rec(a)
        rec(self)
        return out

    # --- evaluation (numpy model arrays of symbolic reals)
    def eval(self):
        raise ShimUnsupported(f"cvxpy: evaluation of '{self.op}'")

    @property
    def value(self):
        try:
            return self.eval()
        except _NoValue:
            return None

    # --- operators
    def __add__(self, o):
        return _Bin("add", self, _wrap(o))

    def __radd__(self, o):
        return _Bin("add", _wrap(o), self)

    def __sub__(self, o):
        return _Bin("sub", self, _wrap(o))

    def __rsub__(self, o):
        return _Bin("sub", _wrap(o), self)

    def __neg__(self):
        return _Un("neg", self)

    def __mul__(self, o):
        return _Bin("mul", self, _wrap(o))

    def __rmul__(self, o):
        return _Bin("mul", _wrap(o), self)

    def __truediv__(self, o):
        return _Bin("div", self, _wrap(o))

    def __rtruediv__(self, o):
        return _Bin("div", _wrap(o), self)

    def __matmul__(self, o):
        return _Bin("matmul", self, _wrap(o))

    def __rmatmul__(self, o):
        return _Bin("matmul", _wrap(o), self)

    __array_priority__ = 2000

    @property
    def T(self):
        return _Un("T", self)

    def __getitem__(self, i):
        return _Index(self, i)

    def __ge__(self, o):
        return Constraint("ge", self, _wrap(o))

    def __le__(self, o):
        return Constraint("le", self, _wrap(o))

    def __eq__(self, o):
        return Constraint("eq", self, _wrap(o))

    __hash__ = object.__hash__


class _NoValue(Exception):
    pass


class Constant(Expression):
    op = "const"

    def __init__(self, a):
        self.a = a
        self.shape = tuple(a.shape)

    def key(self):
        return f"const{self.shape}"

    def eval(self):
        return self.a


class _Leaf(Expression):
    _ids = iter(range(1, 10 ** 9))

    def __init__(self, shape=(), value=None, nonneg=False, name=None, **kw):
        if isinstance(shape, int):
            shape = (shape,)
        self.shape = tuple(shape)
        self.nonneg = nonneg
        self._value = None
        self.id = next(_Leaf._ids)
        if value is not None:
            self.value = value

    def key(self):
        return f"{self.op}{self.shape}{'+' if self.nonneg else ''}"

    @property
    def value(self):
        return self._value

    @value.setter
    def value(self, v):
        if v is None:
            self._value = None
            return
        if not isinstance(v, np.ndarray):
            if isinstance(v, (int, float, R)):
                v = np.full(self.shape, v)
            else:
                raise TypeError(f"cvxpy: value must be a numpy array, got {type(v).__name__}")
        if tuple(v.shape) != self.shape:
            raise ValueError(f"Invalid dimensions {tuple(v.shape)} for {type(self).__name__} value.")
        if v.kind != "real":
            v = v.astype(np.float64)
        self._value = v.copy()

    def eval(self):
        if self._value is None:
            raise _NoValue()
        return self._value


class Variable(_Leaf):
    op = "var"


class Parameter(_Leaf):
    op = "param"


class _Bin(Expression):
    def __init__(self, op, a, b):
        self.op, self.args = op, (a, b)
        self.shape = _mm_shape(a.shape, b.shape) if op == "matmul" else _bc(a.shape, b.shape)

    def eval(self):
        a, b = self.args[0].eval(), self.args[1].eval()
        if self.op == "add":
            return a + b
        if self.op == "sub":
            return a - b
        if self.op == "mul":
            return a * b
        if self.op == "div":
            return a / b
        r = a @ b
        return r


class _Un(Expression):
    def __init__(self, op, a):
        self.op, self.args = op, (a,)
        self.shape = tuple(reversed(a.shape)) if op == "T" else (() if op in ("norm2", "sum") else a.shape)

    def eval(self):
        a = self.args[0].eval()
        if self.op == "neg":
            return -a
        if self.op == "T":
            return a.T
        if self.op == "sum":
            return a.sum()
        if self.op == "norm2":
            return (a * a).sum().sqrt()
        raise ShimUnsupported(f"cvxpy: evaluation of '{self.op}'")


class _Index(Expression):
    def __init__(self, a, i):
        self.op, self.args, self.i = "index", (a,), i
        probe = np.zeros(a.shape) if a.shape else None
        self.shape = tuple(probe[i].shape) if probe is not None else ()

    def key(self):
        return f"index[{self.i}](" + self.args[0].key() + ")"

    def eval(self):
        return self.args[0].eval()[self.i]


def norm(x, p=2, axis=None):
    if p not in (2, "fro") or axis is not None:
        raise ShimUnsupported("cvxpy.norm p != 2")
    x = _wrap(x)
    if len(x.shape) > 1 and _numel(x.shape) != max(x.shape):
        raise ShimUnsupported("cvxpy matrix norm")
    return _Un("norm2", x)


def sum(x, axis=None):
    if axis is not None:
        raise ShimUnsupported("cvxpy.sum axis")
    return _Un("sum", _wrap(x))


def log(x):
    return _Un("log", _wrap(x))


class Constraint:
    def __init__(self, rel, a, b):
        self.rel, self.args = rel, (a, b)
        _bc(a.shape, b.shape)

    def key(self):
        return f"{self.rel}({self.args[0].key()},{self.args[1].key()})"

    def holds(self):
        a, b = self.args[0].eval(), self.args[1].eval()
        d = (a - b)
        fl = d._flat()
        if self.rel == "ge":
            return [x >= 0 for x in fl]
        if self.rel == "le":
            return [x <= 0 for x in fl]
        return [x == 0 for x in fl]

    def __bool__(self):
        raise ShimUnsupported("truth value of a cvxpy constraint")


class Minimize:
    sign = 1

    def __init__(self, expr):
        self.expr = _wrap(expr)
        if _numel(self.expr.shape) != 1:
            raise ValueError("The 'minimize' objective must resolve to a scalar.")


class Maximize(Minimize):
    sign = -1


class Problem:
    def __init__(self, objective, constraints=None):
        self.objective = objective
        self.constraints = list(constraints or [])
        self.status = None
        self.value = None

    def key(self):
        return type(self.objective).__name__ + ":" + self.objective.expr.key() + "|" + ";".join(c.key() for c in self.constraints)

    def variables(self):
        out = []
        for e in [self.objective.expr] + [a for c in self.constraints for a in c.args]:
            for v in e.leaves(Variable):
                if not any(v is x for x in out):
                    out.append(v)
        return out

    def parameters(self):
        out = []
        for e in [self.objective.expr] + [a for c in self.constraints for a in c.args]:
            for v in e.leaves(Parameter):
                if not any(v is x for x in out):
                    out.append(v)
        return out

    def solve(self, solver=None, warm_start=False, verbose=False, **kw):
        import torch
        h = torch.KERNELS.get("cvxpy")
        if h is not None:
            return h(self, solver, kw)
        if self.parameters():
            return _solve_uninterpreted(self, solver, warm_start, kw)
        return _solve_simplex_foc(self, solver)


# ------------------------------------------------------------------------------------------------
def _affine_ok(e):
    if isinstance(e, (Constant,)):
        return True
    if isinstance(e, Variable):
        return True
    if isinstance(e, Parameter):
        return False
    if e.op in ("add", "sub"):
        return _affine_ok(e.args[0]) and _affine_ok(e.args[1])
    if e.op in ("mul", "matmul"):
        a, b = e.args
        ca, cb = not a.leaves(Variable), not b.leaves(Variable)
        return (ca and _affine_ok(b)) or (cb and _affine_ok(a))
    if e.op == "div":
        return not e.args[1].leaves(Variable) and _affine_ok(e.args[0])
    if e.op in ("neg", "T", "sum", "index"):
        return _affine_ok(e.args[0])
    return False


def _terms(e, sign=1):
    if e.op == "add":
        return _terms(e.args[0], sign) + _terms(e.args[1], sign)
    if e.op == "sub":
        return _terms(e.args[0], sign) + _terms(e.args[1], -sign)
    if e.op == "neg":
        return _terms(e.args[0], -sign)
    return [(sign, e)]


def _solve_simplex_foc(prob, solver):
    vs = prob.variables()
    if len(vs) != 1 or len(vs[0].shape) != 1:
        raise ShimUnsupported("cvxpy stub: exactly one vector Variable expected")
    w = vs[0]
    n = w.shape[0]
    if not isinstance(prob.objective, Minimize) or prob.objective.sign != 1:
        raise ShimUnsupported("cvxpy stub: Minimize expected")
    # feasible set must be the simplex
    keys = sorted(c.key() for c in prob.constraints)
    want = sorted([f"ge(var({n},),const())", f"eq(sum()(var({n},)),const())"])
    if keys != want:
        raise ShimUnsupported(f"cvxpy stub: feasible set is not written as the simplex: {keys}")
    for c in prob.constraints:
        k = symx.lift(c.args[1].eval()._as_scalar())
        if c.rel == "ge" and not (k.conc and k.frac() == 0):
            raise ShimUnsupported("cvxpy stub: w >= 0 expected")
        if c.rel == "eq" and not (k.conc and k.frac() == 1):
            raise ShimUnsupported("cvxpy stub: sum(w) == 1 expected")
    lin, norms = [], []
    for sign, t in _terms(prob.objective.expr):
        t_scalar = _numel(t.shape) == 1
        if not t_scalar:
            raise ShimUnsupported("cvxpy stub: non-scalar objective term")
        if _affine_ok(t):
            lin.append((sign, t))
            continue
        kappa, inner = None, None
        if t.op == "norm2":
            kappa, inner = Constant(np.array(1.0)), t.args[0]
        elif t.op == "mul":
            a, b = t.args
            if b.op == "norm2" and not a.leaves(Variable) and not a.leaves(Parameter):
                kappa, inner = a, b.args[0]
            elif a.op == "norm2" and not b.leaves(Variable) and not b.leaves(Parameter):
                kappa, inner = b, a.args[0]
        if inner is None or not _affine_ok(inner) or sign != 1:
            raise ShimUnsupported(f"cvxpy stub: objective term '{t.key()}' is not affine or kappa*||affine||")
        norms.append((kappa, inner))

    def at(point):
        w._value = np.ndarray._make(list(point), (n,), np.float64)

    zero = [R(0)] * n
    unit = lambda i: [R(1) if j == i else R(0) for j in range(n)]
    # linear coefficients by probing (the terms are affine)
    def scal(e):
        return e.eval()._flat()[0]
    c = [R(0)] * n
    for sign, t in lin:
        at(zero)
        t0 = scal(t)
        for i in range(n):
            at(unit(i))
            c[i] = c[i] + sign * (scal(t) - t0)
    Hs = []
    for kappa, inner in norms:
        at(zero)
        h0 = inner.eval()._flat()
        H = []
        for i in range(n):
            at(unit(i))
            hi = inner.eval()._flat()
            H.append([a - b for a, b in zip(hi, h0)])  # H[i][r] = d inner_r / d w_i
        kv = kappa.eval()._flat()[0]
        if not bool(kv >= 0):
            raise ShimUnsupported("cvxpy stub: negative norm coefficient (non-convex)")
        Hs.append((kv, H, h0))
    import torch
    cand_fn = torch.KERNELS.get("cvx_candidates")
    cands = list(cand_fn()) if cand_fn is not None else []
    for cand in cands:
        cw, cs = cand if isinstance(cand, tuple) else (cand, None)
        if len(cw) != n:
            continue
        okf = _opt_formula(list(cw), c, Hs, n, cs, fresh_s=False)
        if okf is not None and symx.space().proved(okf[0], timeout_ms=10000):
            at(list(cw))
            prob.status = "optimal"
            _elog("kernel", "cvxpy_simplex", prob, list(cw), okf[1], "candidate")
            return None
    # fresh solution: feasible + optimal (convex problem: first-order / subgradient optimality is exact)
    wv = [symx.fresh(f"cvx_w{i}") for i in range(n)]
    f, svec = _opt_formula(wv, c, Hs, n, None, fresh_s=True)
    symx.assume(f)
    at(wv)
    prob.status = "optimal"
    _elog("kernel", "cvxpy_simplex", prob, list(wv), svec, "fresh")
    return None


def _opt_formula(wv, c, Hs, n, svec, fresh_s):
    """(formula, subgradient witnesses) stating: wv is feasible and optimal for  min c.w + sum_k kappa_k ||H_k^T w + h0_k||  on the simplex.
    Where a norm vanishes at wv the subgradient kappa * H s with ||s|| <= 1 is used (s: given witness, or fresh when fresh_s)."""
    grad = list(c)
    extra = []
    used = []
    for t, (kv, H, h0) in enumerate(Hs):
        val = [h0[r] + _sum([H[i][r] * wv[i] for i in range(n)]) for r in range(len(h0))]
        if bool(kv == 0):
            used.append(None)
            continue
        sq = _sum([x * x for x in val])
        if bool(sq == 0):
            if svec is not None and t < len(svec) and svec[t] is not None:
                sv = svec[t]
            elif fresh_s:
                sv = [symx.fresh(f"cvx_s{t}_{r}") for r in range(len(h0))]
            else:
                return None
            used.append(sv)
            extra.append((_sum([x * x for x in sv]) <= 1).z())
            for i in range(n):
                grad[i] = grad[i] + kv * _sum([H[i][r] * sv[r] for r in range(len(sv))])
        else:
            used.append(None)
            nrm = sq.sqrt()
            for i in range(n):
                grad[i] = grad[i] + kv * _sum([H[i][r] * val[r] for r in range(len(val))]) / nrm
    gw = _sum([grad[i] * wv[i] for i in range(n)])
    f = z3.And(*[(x >= 0).z() for x in wv], _sum(wv).eqz(1), *[(grad[i] >= gw).z() for i in range(n)], *extra)
    return f, used


def _solve_uninterpreted(prob, solver, warm_start, kw):
    import torch
    sp = symx.space()
    params, vs = prob.parameters(), prob.variables()
    args = []
    for p in params:
        if p._value is None:
            raise ValueError("A Parameter (whose name is 'param') does not have a value associated with it; all Parameter objects must have values before solving a problem.")
        args.extend(p._value._flat())
    for v in vs:
        if warm_start and v._value is not None:
            args.append(R(1))
            args.extend(v._value._flat())
        else:
            args.append(R(0))
    key = (prob.key(), str(solver), warm_start, tuple(sorted((k, str(v)) for k, v in kw.items())), len(args))
    calls = sp.memo.setdefault("cvxpy_calls", [])
    outcome = None
    for k2, a2, out2 in calls:
        if k2 != key:
            continue
        eq = z3.And(*[x.eqz(y) for x, y in zip(args, a2)]) if args else z3.BoolVal(True)
        if bool(B(z3.simplify(eq))):
            outcome = out2
            break
    if outcome is None:
        outcomes = torch.KERNELS.get("cvxpy_outcomes", ("ok", "raise"))
        kind = outcomes[sp.choice(len(outcomes), "cvxpy_outcome")]
        vals = None
        if kind == "ok":
            vals = []
            for v in vs:
                xs = [symx.fresh(f"cvx_{len(calls)}_{i}") for i in range(_numel(v.shape))]
                if v.nonneg:
                    for x in xs:
                        symx.assume((x >= 0).z())
                vals.append(xs)
        outcome = (kind, vals)
        calls.append((key, list(args), outcome))
    _elog("kernel", "cvxpy_uninterpreted", prob, list(args), outcome)
    kind, vals = outcome
    if kind == "raise":
        raise SolverError("Solver 'ECOS' failed. Try another solver, or solve with verbose=True for more information.")
    if kind == "none":
        for v in vs:
            v._value = None
        prob.status = "infeasible"
        return None
    for v, xs in zip(vs, vals):
        v._value = np.ndarray._make(list(xs), v.shape, np.float64)
    prob.status = "optimal"
    return None


def __getattr__(name):
    if name.startswith("__"):
        raise AttributeError(name)
    raise ShimUnsupported(f"cvxpy.{name} is not modelled")
