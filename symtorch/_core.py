"""Core of the environment model: N-d strided arrays of symbolic scalars with shared storage.

Two public array types are built on it: torch.Tensor and numpy.ndarray.  They deliberately do not
inter-operate (numpy.ndarray @ torch.Tensor raises TypeError exactly like the real pair)."""
from __future__ import annotations

import itertools
from fractions import Fraction

import z3

import symx
from symx import B, R, Sp, NAN, INF, NINF, ShimUnsupported, lift

EVENTS = []  # global event log of the environment: grad writes, in-place writes, sweeps, kernels


def log(*ev):
    EVENTS.append(ev)


class dtype_:
    def __init__(self, name, is_float, bits):
        self.name, self.is_floating_point, self.bits = name, is_float, bits

    def __repr__(self):
        return self.name

    # numpy style call: np.float64(x)
    def __call__(self, x):
        return x


float32 = dtype_("float32", True, 32)
float64 = dtype_("float64", True, 64)
float16 = dtype_("float16", True, 16)
int64 = dtype_("int64", False, 64)
int32 = dtype_("int32", False, 32)
bool_ = dtype_("bool", False, 1)
_DT = {"float32": float32, "float64": float64, "int64": int64, "bool": bool_, "float16": float16, "int32": int32}


def _promote(a, b):
    if a is b:
        return a
    if a.is_floating_point and b.is_floating_point:
        return a if a.bits >= b.bits else b
    if a.is_floating_point:
        return a
    if b.is_floating_point:
        return b
    return a if a.bits >= b.bits else b


class device:
    def __init__(self, name="cpu", index=None):
        if isinstance(name, device):
            name = name.type
        self.type = str(name).split(":")[0]

    def __eq__(self, o):
        return isinstance(o, device) and o.type == self.type

    def __hash__(self):
        return hash(self.type)

    def __repr__(self):
        return f"device(type='{self.type}')"


CPU = device("cpu")


class Size(tuple):
    def numel(self):
        r = 1
        for s in self:
            r *= s
        return r

    def __getitem__(self, i):
        r = tuple.__getitem__(self, i)
        return Size(r) if isinstance(i, slice) else r

    def __add__(self, o):
        return Size(tuple.__add__(self, tuple(o)))

    def __radd__(self, o):
        return Size(tuple(o) + tuple(self))

    def __repr__(self):
        return f"Size({list(self)})"


def _numel(shape):
    r = 1
    for s in shape:
        r *= s
    return r


def _contig_strides(shape):
    st = []
    acc = 1
    for s in reversed(shape):
        st.append(acc)
        acc *= max(s, 1)
    return tuple(reversed(st))


_SID = itertools.count(1)


class Storage:
    __slots__ = ("data", "sid", "writes")

    def __init__(self, data):
        self.data = data
        self.sid = next(_SID)
        self.writes = 0


def _kind_of(x):
    if isinstance(x, (R, Sp)):
        return "real"
    if isinstance(x, (B, bool)):
        return "bool"
    if isinstance(x, int):
        return "int"
    if isinstance(x, (float, Fraction)):
        return "real"
    raise ShimUnsupported(f"element type {type(x)}")


def _to_real(x):
    if isinstance(x, (R, Sp)):
        return x
    if isinstance(x, B):
        return x.to_real()
    return lift(x)


def _to_bool(x):
    if isinstance(x, B):
        return x
    if isinstance(x, bool):
        return B(x)
    if isinstance(x, int):
        return B(x != 0)
    if isinstance(x, Sp):
        return B(True)
    return lift(x) != 0


def _conv(x, kind):
    if kind == "real":
        return _to_real(x)
    if kind == "bool":
        return _to_bool(x)
    if kind == "int":
        if isinstance(x, bool):
            return int(x)
        if isinstance(x, int):
            return x
        if isinstance(x, B):
            return 1 if bool(x) else 0
        if isinstance(x, R) and x.conc:
            return int(x.frac())  # truncation toward zero for positive; fine for our uses
        raise ShimUnsupported("symbolic real -> int")
    raise AssertionError(kind)


def _lossy(src, dst):
    """float64 -> float32 (or lower) conversion while the harness asked for rounding to be modelled"""
    if src is None or dst is None or not (src.is_floating_point and dst.is_floating_point) or dst.bits == src.bits:
        return False
    try:
        import torch
        mode = torch.KERNELS.get("lossy_casts")
    except Exception:  # noqa
        return False
    # True: down-casts only.  "both": ANY change of floating dtype - a value that was computed in float32 and is then widened carries float32
    # rounding into a float64 computation (only used by harnesses whose unchanged code performs no such conversion at all)
    return bool(mode) and (dst.bits < src.bits or mode == "both")


def _round_to(x, dst):
    """a down-cast is NOT the identity on reals: the result is an arbitrary nearby value (fresh, unconstrained) unless x is a small dyadic
    rational, which every binary float format represents exactly.  Obligations that hold under this model hold whatever the rounding does."""
    if isinstance(x, R) and x.conc:
        f = x.frac()
        d = f.denominator
        if d & (d - 1) == 0 and d <= 2 ** 20 and abs(f.numerator) < 2 ** 20:
            return x
    if isinstance(x, Sp):
        return x
    log("lossy_cast", str(dst))
    return symx.fresh("rnd")


def _default_dtype(kind):
    return {"real": float32, "bool": bool_, "int": int64}[kind]


class Arr:
    """N-d strided array.  Subclasses: torch.Tensor, numpy.ndarray."""

    _default_float = float32
    __array_priority__ = 1000

    def __getattr__(self, name):
        # only reached for attributes that do not exist: a public tensor method that is not modelled is an HONEST inconclusive, not an AttributeError
        # that the code under analysis (or a harness) could mistake for behaviour of the real library
        if name.startswith("_") or name in ("grad", "grad_fn", "requires_grad", "is_leaf", "names"):
            raise AttributeError(name)
        raise ShimUnsupported(f"{type(self).__name__}.{name} is not modelled")

    def __init__(self, storage, shape, strides=None, offset=0, dtype=None, kind="real"):
        self._storage = storage
        self.shape = Size(shape)
        self._strides = tuple(strides) if strides is not None else _contig_strides(self.shape)
        self._offset = offset
        self.kind = kind
        self.dtype = dtype or (self._default_float if kind == "real" else _default_dtype(kind))
        self.device = CPU

    # ------------------------------------------------------------------ construction
    @classmethod
    def _make(cls, flat, shape, dtype=None, kind=None):
        flat = list(flat)
        shape = tuple(shape)
        assert len(flat) == _numel(shape), (len(flat), shape)
        if kind is None:
            kind = _kind_of(flat[0]) if flat else ("real" if dtype is None or dtype.is_floating_point else ("bool" if dtype is bool_ else "int"))
        flat = [_conv(x, kind) for x in flat]
        return cls(Storage(flat), shape, None, 0, dtype, kind)

    def _like(self, flat, shape=None, dtype=None, kind=None):
        kind = kind or self.kind
        if dtype is None:
            dtype = self.dtype if kind == self.kind else (self._default_float if kind == "real" else _default_dtype(kind))
        return type(self)._make(flat, self.shape if shape is None else shape, dtype, kind)

    # ------------------------------------------------------------------ raw access
    def _indices(self):
        if not self.shape:
            return [self._offset]
        if 0 in self.shape:
            return []
        idx = [self._offset]
        for s, st in zip(self.shape, self._strides):
            idx = [b + i * st for b in idx for i in range(s)]
        return idx

    def _flat(self):
        d = self._storage.data
        return [d[i] for i in self._indices()]

    def _write(self, flat):
        d = self._storage.data
        idx = self._indices()
        assert len(idx) == len(flat)
        for i, v in zip(idx, flat):
            d[i] = _conv(v, self.kind)
        self._storage.writes += 1
        log("write", self._storage.sid)

    def _is_contig(self):
        return self._strides == _contig_strides(self.shape) or self.numel() <= 1

    def _as_scalar(self):
        if self.numel() != 1:
            raise ValueError("only one element tensors can be converted to Python scalars")
        return self._flat()[0]

    # ------------------------------------------------------------------ structure
    def dim(self):
        return len(self.shape)

    @property
    def ndim(self):
        return len(self.shape)

    def numel(self):
        return _numel(self.shape)

    def size(self, d=None):
        return self.shape if d is None else self.shape[d]

    def __len__(self):
        if not self.shape:
            raise TypeError("len() of a 0-d tensor")
        return self.shape[0]

    def item(self):
        v = self._as_scalar()
        if isinstance(v, B) and v.conc:
            return v.v
        return v

    def tolist(self):
        def rec(t):
            if t.dim() == 0:
                return t.item()
            return [rec(t[i]) for i in range(t.shape[0])]
        return rec(self)

    def __iter__(self):
        if not self.shape:
            raise TypeError("iteration over a 0-d tensor")
        for i in range(self.shape[0]):
            yield self[i]

    _isview = False

    def _view(self, shape, strides, offset):
        r = type(self)(self._storage, shape, strides, offset, self.dtype, self.kind)
        r._isview = True
        return r

    def _is_view(self):
        return self._isview

    def _norm_dim(self, d, extra=0):
        n = self.dim() + extra
        if d < 0:
            d += n
        if not 0 <= d < max(n, 1):
            raise IndexError(f"Dimension out of range (got {d} for {n} dims)")
        return d

    def _infer_shape(self, shape):
        if len(shape) == 1 and not isinstance(shape[0], int):
            shape = tuple(shape[0])
        shape = [int(s) for s in shape]
        if shape.count(-1) > 1:
            raise RuntimeError("only one dimension can be inferred")
        if -1 in shape:
            k = shape.index(-1)
            rest = 1
            for i, s in enumerate(shape):
                if i != k:
                    rest *= s
            if rest == 0 or self.numel() % rest:
                raise RuntimeError(f"shape '{shape}' is invalid for input of size {self.numel()}")
            shape[k] = self.numel() // rest
        if _numel(shape) != self.numel():
            raise RuntimeError(f"shape '{shape}' is invalid for input of size {self.numel()}")
        return tuple(shape)

    def _try_view_strides(self, shape):
        """strides of a view with `shape`, or None if impossible (torch's computeStride rule, simplified:
        contiguous tensors and insertion/removal of size-1 dims are viewable)."""
        if self._is_contig():
            return _contig_strides(shape)
        # drop size-1 dims on both sides and compare
        old = [(s, st) for s, st in zip(self.shape, self._strides) if s != 1]
        new = [s for s in shape if s != 1]
        if [s for s, _ in old] == new:
            it = iter(old)
            out = []
            for s in shape:
                out.append(1 if s == 1 else next(it)[1])
            return tuple(out)
        # general case: try to merge/split chunks of old dims that are contiguous among themselves
        res = []
        oi = len(old) - 1
        ni = len(shape) - 1
        # generic algorithm (port of at::detail::computeStride)
        oldshape, oldstride = list(self.shape), list(self._strides)
        newshape = list(shape)
        if not oldshape:
            return tuple(1 for _ in newshape)
        newstride = [0] * len(newshape)
        view_d = len(newshape) - 1
        chunk_base_stride = oldstride[-1]
        tensor_numel = 1
        view_numel = 1
        for tensor_d in range(len(oldshape) - 1, -1, -1):
            tensor_numel *= oldshape[tensor_d]
            if tensor_d == 0 or (oldshape[tensor_d - 1] != 1 and oldstride[tensor_d - 1] != tensor_numel * chunk_base_stride):
                while view_d >= 0 and (view_numel < tensor_numel or newshape[view_d] == 1):
                    newstride[view_d] = view_numel * chunk_base_stride
                    view_numel *= newshape[view_d]
                    view_d -= 1
                if view_numel != tensor_numel:
                    return None
                if tensor_d > 0:
                    chunk_base_stride = oldstride[tensor_d - 1]
                    tensor_numel = 1
                    view_numel = 1
        if view_d != -1:
            return None
        return tuple(newstride)

    def view(self, *shape):
        if len(shape) == 1 and isinstance(shape[0], dtype_):
            raise ShimUnsupported("view(dtype)")
        shape = self._infer_shape(shape)
        st = self._try_view_strides(shape)
        if st is None:
            raise RuntimeError("view size is not compatible with input tensor's size and stride (at least one dimension spans across two contiguous subspaces). Use .reshape(...) instead.")
        return self._view(shape, st, self._offset)

    def reshape(self, *shape):
        shape = self._infer_shape(shape)
        st = self._try_view_strides(shape)
        if st is None:
            return self._like(self._flat(), shape)
        return self._view(shape, st, self._offset)

    def flatten(self, start_dim=0, end_dim=-1):
        if self.dim() == 0:
            return self.reshape(1)
        s, e = self._norm_dim(start_dim), self._norm_dim(end_dim)
        shape = list(self.shape[:s]) + [_numel(self.shape[s:e + 1])] + list(self.shape[e + 1:])
        return self.reshape(shape)

    def ravel(self):
        return self.reshape(-1)

    def contiguous(self):
        return self if self._is_contig() else self._like(self._flat())

    def is_contiguous(self):
        return self._is_contig()

    def squeeze(self, d=None):
        if d is None:
            keep = [(s, st) for s, st in zip(self.shape, self._strides) if s != 1]
            return self._view([s for s, _ in keep], [st for _, st in keep], self._offset)
        if self.dim() == 0:
            if d in (0, -1):
                return self._view((), (), self._offset)
            raise IndexError("Dimension out of range")
        d = self._norm_dim(d)
        if self.shape[d] != 1:
            return self._view(self.shape, self._strides, self._offset)
        return self._view(self.shape[:d] + self.shape[d + 1:], self._strides[:d] + self._strides[d + 1:], self._offset)

    def unsqueeze(self, d):
        d = self._norm_dim(d, 1)
        return self._view(tuple(self.shape[:d]) + (1,) + tuple(self.shape[d:]), self._strides[:d] + (1,) + self._strides[d:], self._offset)

    def transpose(self, a=None, b=None):
        if a is None:  # numpy style
            return self.permute(*reversed(range(self.dim())))
        a, b = self._norm_dim(a), self._norm_dim(b)
        p = list(range(self.dim()))
        p[a], p[b] = p[b], p[a]
        return self.permute(*p)

    def permute(self, *p):
        if len(p) == 1 and not isinstance(p[0], int):
            p = tuple(p[0])
        p = [self._norm_dim(x) for x in p]
        assert sorted(p) == list(range(self.dim()))
        return self._view([self.shape[i] for i in p], [self._strides[i] for i in p], self._offset)

    @property
    def T(self):
        return self.permute(*reversed(range(self.dim())))

    @property
    def mT(self):
        return self.transpose(-1, -2)

    def t(self):
        if self.dim() > 2:
            raise RuntimeError("t() expects a tensor with <= 2 dimensions")
        return self.T

    def expand(self, *shape):
        if len(shape) == 1 and not isinstance(shape[0], int):
            shape = tuple(shape[0])
        shape = list(shape)
        nd = len(shape)
        oshape = (1,) * (nd - self.dim()) + tuple(self.shape)
        ostr = (0,) * (nd - self.dim()) + tuple(self._strides)
        st = []
        for i, s in enumerate(shape):
            if s == -1:
                shape[i] = s = oshape[i]
            if oshape[i] == s:
                st.append(ostr[i])
            elif oshape[i] == 1:
                st.append(0)
            else:
                raise RuntimeError("expand: incompatible sizes")
        return self._view(shape, st, self._offset)

    def stride(self, dim=None):
        return tuple(self._strides) if dim is None else self._strides[self._norm_dim(dim)]

    def as_strided(self, size, stride, storage_offset=None):
        size, stride = [int(x) for x in size], [int(x) for x in stride]
        if len(size) != len(stride):
            raise RuntimeError("mismatch in length of strides and shape")
        off = self._offset if storage_offset is None else int(storage_offset)
        top = off + sum((n - 1) * st for n, st in zip(size, stride) if n > 0)
        if any(n == 0 for n in size):
            top = off
        if top >= len(self._storage.data) and not any(n == 0 for n in size):
            raise RuntimeError("setStorage: sizes, strides and storage offset are out of bounds for the storage")
        return self._view(size, stride, off)

    def narrow(self, dim, start, length):
        dim = self._norm_dim(dim)
        if start < 0:
            start += self.shape[dim]
        if length < 0 or start < 0 or start + length > self.shape[dim]:
            raise RuntimeError(f"start ({start}) + length ({length}) exceeds dimension size ({self.shape[dim]}).")
        sh = list(self.shape)
        sh[dim] = length
        return self._view(sh, self._strides, self._offset + start * self._strides[dim])

    # ------------------------------------------------------------------ indexing
    def _index_prepare(self, idx):
        if not isinstance(idx, tuple):
            idx = (idx,)
        out = []
        for i in idx:
            if isinstance(i, Arr):
                if i.kind == "int" and i.dim() == 0:
                    i = int(i._as_scalar())
                elif i.kind == "bool":
                    if len(idx) != 1:
                        # x[:, mask] and the like: a 1-d mask is the list of positions where it is true (decided by forking)
                        if i.dim() != 1:
                            raise ShimUnsupported("multi-dimensional boolean mask combined with other indices")
                        i = [k for k, mk in enumerate(i._flat()) if bool(_to_bool(mk))]
                        if not i:
                            raise ShimUnsupported("empty boolean mask combined with other indices")
                    else:
                        return [("mask", i)]
            elif isinstance(i, bool):
                raise ShimUnsupported("bool index")
            out.append(i)
        if any(i is Ellipsis for i in out):
            k = out.index(Ellipsis)
            n_real = sum(1 for i in out if i is not None and i is not Ellipsis)
            out = out[:k] + [slice(None)] * (self.dim() - n_real) + out[k + 1:]
        return out

    def __getitem__(self, idx):
        idx = self._index_prepare(idx)
        if len(idx) == 1 and isinstance(idx[0], tuple) and idx[0][0] == "mask":
            # x[mask]: the truth of every mask element is decided by forking, so the result has a concrete shape on each path (always a copy)
            mask = idx[0][1]
            k = mask.dim()
            if tuple(mask.shape) != tuple(self.shape[:k]):
                raise IndexError(f"The shape of the mask {list(mask.shape)} does not match the shape of the indexed tensor {list(self.shape)}")
            rest = list(self.shape[k:])
            positions = list(itertools.product(*[range(n) for n in mask.shape]))
            picked = [pos for pos, mk in zip(positions, mask._flat()) if bool(_to_bool(mk))]
            flat = []
            for pos in picked:
                sub = self[pos] if pos else self
                flat.extend(sub._flat())
            return self._like(flat, [len(picked)] + rest)
        adv = [(k, i) for k, i in enumerate(idx) if isinstance(i, (list, Arr))]
        if adv:
            return self._adv_getitem(idx)
        shape, strides, off = [], [], self._offset
        d = 0
        for i in idx:
            if i is None:
                shape.append(1)
                strides.append(0 if not strides else 1)
                continue
            if d >= self.dim():
                raise IndexError("too many indices for tensor of dimension %d" % self.dim())
            n, st = self.shape[d], self._strides[d]
            if isinstance(i, int):
                if not -n <= i < n:
                    raise IndexError(f"index {i} is out of bounds for dimension {d} with size {n}")
                off += (i % n) * st
            elif isinstance(i, slice):
                a, b, c = i.indices(n)
                if c <= 0:
                    raise ValueError("step must be greater than zero")
                ln = len(range(a, b, c))
                off += a * st if ln else 0
                shape.append(ln)
                strides.append(st * c)
            elif hasattr(i, "__index__"):
                i = i.__index__()
                if not -n <= i < n:
                    raise IndexError("index out of range")
                off += (i % n) * st
            else:
                raise ShimUnsupported(f"index {i!r}")
            d += 1
        shape += self.shape[d:]
        strides += self._strides[d:]
        return self._view(shape, strides, off)

    def _adv_getitem(self, idx):
        # supports exactly one advanced (1-d integer) index, the others ints/slices
        pos = [k for k, i in enumerate(idx) if isinstance(i, (list, Arr))]
        if len(pos) != 1 or any(i is None for i in idx):
            raise ShimUnsupported("multiple advanced indices")
        k = pos[0]
        sel = idx[k]
        sel = [int(x) for x in (sel._flat() if isinstance(sel, Arr) else sel)]
        if isinstance(idx[k], Arr) and idx[k].dim() != 1:
            raise ShimUnsupported("advanced index of rank != 1")
        d = sum(1 for i in idx[:k] if not isinstance(i, int))  # output dim where the picked slices are stacked
        pieces = []
        for s in sel:
            sub = list(idx)
            sub[k] = s
            pieces.append(self[tuple(sub)])
        if not pieces:
            raise ShimUnsupported("empty advanced index")
        return _stack(pieces, d)

    def __setitem__(self, idx, val):
        if isinstance(idx, Arr) and idx.kind == "bool":
            if isinstance(val, Arr) and val.numel() != 1 or (isinstance(val, Arr) and tuple(idx.shape) != tuple(self.shape)):
                # x[mask] = values : a 1-d mask over the first dimension; the true positions receive the slices of `values` in order
                if idx.dim() != 1 or idx.shape[0] != self.shape[0]:
                    raise ShimUnsupported("boolean-mask assignment with a mask that is not 1-d over the first dimension")
                pos = [k for k, mk in enumerate(idx._flat()) if bool(_to_bool(mk))]
                if not pos:
                    return
                self[pos] = val
                return
            # boolean-mask assignment of a scalar: x[mask] = v
            if tuple(idx.shape) != tuple(self.shape) or isinstance(val, Arr) and val.numel() != 1:
                raise ShimUnsupported("boolean-mask assignment of a non-scalar")
            v = val._as_scalar() if isinstance(val, Arr) else val
            cur = self._flat()
            self._write([(v if bool(_to_bool(mk)) else x) for mk, x in zip(idx._flat(), cur)])
            return
        pidx = self._index_prepare(idx)
        adv = [k for k, i in enumerate(pidx) if isinstance(i, (list, Arr))]
        if adv:
            # x[..., index_tensor, ...] = v : advanced indexing yields a COPY on read, so the write must go element-wise through basic views
            if len(adv) != 1 or any(i is None for i in pidx):
                raise ShimUnsupported("assignment through multiple advanced indices")
            k = adv[0]
            sel = pidx[k]
            if isinstance(sel, Arr) and sel.dim() != 1:
                raise ShimUnsupported("assignment through an advanced index of rank != 1")
            sel = [int(x) for x in (sel._flat() if isinstance(sel, Arr) else sel)]
            d = sum(1 for i in pidx[:k] if not isinstance(i, int))  # dimension of the result along which the picked slices are stacked
            shape_probe = list(self[tuple(pidx[:k] + [0] + pidx[k + 1:])].shape) if self.shape[sum(1 for i in pidx[:k])] else []
            full = shape_probe[:d] + [len(sel)] + shape_probe[d:]
            if isinstance(val, Arr):
                if type(val) is not type(self):
                    raise TypeError(f"can't assign a {type(val).__name__} to a {type(self).__name__}")
                vb = _broadcast_to(val, full)
            for pos, j in enumerate(sel):
                sub = list(pidx)
                sub[k] = j
                self[tuple(sub)] = vb.select(d, pos) if isinstance(val, Arr) else val
            return
        target = self[idx]
        if isinstance(val, Arr):
            if type(val) is not type(self):
                raise TypeError(f"can't assign a {type(val).__name__} to a {type(self).__name__}")
            vals = _broadcast_to(val, target.shape)._flat()
            if self.kind == "real" and val.kind == "real" and _lossy(val.dtype, self.dtype):
                vals = [_round_to(x, self.dtype) for x in vals]
        else:
            vals = [val] * target.numel()
        target._write(vals)

    # ------------------------------------------------------------------ conversions
    def clone(self):
        return self._like(self._flat())

    def copy(self):
        return self._like(self._flat())

    def _cast(self, dtype):
        if dtype is self.dtype:
            return self
        if isinstance(dtype, str):
            dtype = _DT[dtype]
        kind = "real" if dtype.is_floating_point else ("bool" if dtype is bool_ else "int")
        if self.kind == "real" and kind == "real" and _lossy(self.dtype, dtype):
            return type(self)._make([_round_to(x, dtype) for x in self._flat()], self.shape, dtype, kind)
        return type(self)._make([_conv(x, kind) for x in self._flat()], self.shape, dtype, kind)

    def astype(self, dtype):
        r = self._cast(dtype)
        return r.copy() if r is self else r

    def float(self):
        return self._cast(float32)

    def double(self):
        return self._cast(float64)

    def long(self):
        return self._cast(int64)

    def int(self):
        return self._cast(int32)

    def bool(self):
        return self._cast(bool_)

    def __index__(self):
        if self.kind != "int" or self.numel() != 1:
            raise TypeError("only integer tensors of a single element can be converted to an index")
        return int(self._as_scalar())

    def __int__(self):
        v = self._as_scalar()
        if isinstance(v, R):
            return int(v)
        if isinstance(v, B):
            return int(bool(v))
        return int(v)

    def __float__(self):
        v = self._as_scalar()
        return float(v) if not isinstance(v, int) else float(v)

    def __bool__(self):
        if self.numel() != 1:
            raise RuntimeError("Boolean value of Tensor with more than one value is ambiguous")
        v = self._as_scalar()
        if isinstance(v, Sp):
            return True
        if isinstance(v, (int, bool)):
            return bool(v)
        return bool(v)  # R.__bool__ / B.__bool__ fork

    def __hash__(self):
        h = getattr(self, "_h", None)
        return id(self) // 16 + 10 ** 6 if h is None else h

    def __repr__(self):
        try:
            return f"{type(self).__name__}({self.tolist()!r}, shape={tuple(self.shape)}, dtype={self.dtype})"
        except BaseException:
            return f"{type(self).__name__}(shape={tuple(self.shape)})"

    def __format__(self, spec):
        return repr(self)

    # ------------------------------------------------------------------ elementwise
    def _coerce(self, o):
        """other operand -> (Arr of same class) or scalar element"""
        if isinstance(o, Arr):
            if type(o) is not type(self):
                raise TypeError(f"unsupported operand type(s): '{type(self).__name__}' and '{type(o).__name__}'")
            return o
        if isinstance(o, (R, Sp, B, int, float, bool, Fraction)):
            return o
        return NotImplemented

    def _ew(self, o, f, kind=None, rkind=None, rev=False):
        """elementwise binary op with broadcasting.  kind: kind operands are converted to; rkind: result kind"""
        o = self._coerce(o)
        if o is NotImplemented:
            return NotImplemented
        if isinstance(o, Arr):
            shape = _bshape(self.shape, o.shape)
            a = _broadcast_to(self, shape)._flat()
            b = _broadcast_to(o, shape)._flat()
            okind, odt = o.kind, o.dtype
        else:
            shape = self.shape
            a = self._flat()
            b = [o] * len(a)
            okind = _kind_of(o)
            odt = None
        if kind is None:
            order = {"bool": 0, "int": 1, "real": 2}
            kind = self.kind if order[self.kind] >= order[okind] else okind
        a = [_conv(x, kind) for x in a]
        b = [_conv(x, kind) for x in b]
        if rev:
            a, b = b, a
        rk = rkind or kind
        if rk == kind:
            if odt is None:
                dt = self.dtype if self.kind == kind else (self._default_float if kind == "real" else _default_dtype(kind))
            elif self.kind == okind:
                # dimension-aware promotion (0-d operands do not promote within the same category)
                if self.dim() == 0 and o.dim() > 0:
                    dt = odt
                elif o.dim() == 0 and self.dim() > 0:
                    dt = self.dtype
                else:
                    dt = _promote(self.dtype, odt)
            else:
                dt = self.dtype if self.kind == kind else odt
        else:
            dt = _default_dtype(rk) if rk != "real" else self._default_float
        return type(self)._make([f(x, y) for x, y in zip(a, b)], shape, dt, rk)

    def _arith_kind(self, o):
        ok = o.kind if isinstance(o, Arr) else _kind_of(o) if not isinstance(o, Arr) else None
        if self.kind == "bool" and ok == "bool":
            return "bool"
        return None

    def __add__(self, o):
        if self._arith_kind(o) == "bool":
            return self._ew(o, lambda a, b: a | b)
        return self._ew(o, lambda a, b: a + b)

    def __radd__(self, o):
        return self.__add__(o)

    def __sub__(self, o):
        if self._arith_kind(o) == "bool":
            raise RuntimeError("Subtraction, the `-` operator, with two bool tensors is not supported.")
        return self._ew(o, lambda a, b: a - b, kind="real" if self.kind == "bool" or _okind(o) == "bool" else None)

    def __rsub__(self, o):
        return self._ew(o, lambda a, b: a - b, kind="real" if self.kind == "bool" else None, rev=True)

    def __mul__(self, o):
        if self._arith_kind(o) == "bool":
            return self._ew(o, lambda a, b: a & b)
        return self._ew(o, lambda a, b: a * b)

    def __rmul__(self, o):
        return self.__mul__(o)

    def __truediv__(self, o):
        return self._ew(o, _div, kind="real")

    def __rtruediv__(self, o):
        return self._ew(o, _div, kind="real", rev=True)

    def __neg__(self):
        if self.kind == "bool":
            raise RuntimeError("Negation on a bool tensor is not supported")
        return self._like([-a for a in self._flat()])

    def __pos__(self):
        return self

    def __pow__(self, p):
        if isinstance(p, Arr):
            p = p._as_scalar()
        return self._like([_to_real(a) ** p for a in self._flat()], kind="real")

    def __abs__(self):
        return self.abs()

    def _cmp(self, o, op):
        def f(a, b):
            if isinstance(a, (int, bool)) and isinstance(b, (int, bool)) and not isinstance(a, B):
                return B({"lt": a < b, "le": a <= b, "gt": a > b, "ge": a >= b, "eq": a == b, "ne": a != b}[op])
            a, b = _to_real(a), _to_real(b)
            return {"lt": a.__lt__, "le": a.__le__, "gt": a.__gt__, "ge": a.__ge__, "eq": a.__eq__, "ne": a.__ne__}[op](b)
        okind = _okind(o)
        k = "int" if self.kind == "int" and okind == "int" else "real"
        if self.kind == "bool" and okind == "bool":
            k = "int"
        r = self._ew(o, f, kind=k, rkind="bool")
        return r

    def __lt__(self, o):
        return self._cmp(o, "lt")

    def __le__(self, o):
        return self._cmp(o, "le")

    def __gt__(self, o):
        return self._cmp(o, "gt")

    def __ge__(self, o):
        return self._cmp(o, "ge")

    def __eq__(self, o):
        if o is None or isinstance(o, (str, tuple, list, dict)):
            return False
        r = self._cmp(o, "eq")
        return r

    def __ne__(self, o):
        if o is None or isinstance(o, (str, tuple, list, dict)):
            return True
        return self._cmp(o, "ne")

    def __and__(self, o):
        if self.kind != "bool":
            raise ShimUnsupported("bitwise and on non-bool")
        return self._ew(o, lambda a, b: a & b, kind="bool")

    __rand__ = __and__

    def __or__(self, o):
        if self.kind != "bool":
            raise ShimUnsupported("bitwise or on non-bool")
        return self._ew(o, lambda a, b: a | b, kind="bool")

    __ror__ = __or__

    def __invert__(self):
        if self.kind != "bool":
            raise ShimUnsupported("bitwise not on non-bool")
        return self._like([~a for a in self._flat()])

    def logical_not(self):
        return self._like([~_to_bool(a) for a in self._flat()], kind="bool")

    # in-place (write-through)
    def _inplace(self, res):
        if res is NotImplemented:
            return NotImplemented
        if tuple(res.shape) != tuple(self.shape):
            raise RuntimeError(f"output with shape {list(self.shape)} doesn't match the broadcast shape {list(res.shape)}")
        if res.kind != self.kind:
            order = {"bool": 0, "int": 1, "real": 2}
            if order[res.kind] > order[self.kind]:
                raise RuntimeError(f"result type {res.dtype} can't be cast to the desired output type {self.dtype}")
        fl = res._flat()
        if self.kind == "real" and res.kind == "real" and _lossy(res.dtype, self.dtype):
            fl = [_round_to(x, self.dtype) for x in fl]
        self._write(fl)
        return self

    def __iadd__(self, o):
        return self._inplace(self + o)

    def __isub__(self, o):
        return self._inplace(self - o)

    def __imul__(self, o):
        return self._inplace(self * o)

    def __itruediv__(self, o):
        return self._inplace(self / o)

    def add_(self, o, alpha=1):
        return self._inplace(self + (o * alpha if alpha != 1 else o))

    def sub_(self, o, alpha=1):
        return self._inplace(self - (o * alpha if alpha != 1 else o))

    def mul_(self, o):
        return self._inplace(self * o)

    def div_(self, o):
        return self._inplace(self / o)

    def zero_(self):
        self._write([0] * self.numel())
        return self

    def fill_(self, v):
        if isinstance(v, Arr):
            v = v._as_scalar()
        self._write([v] * self.numel())
        return self

    def copy_(self, o):
        self._write(_broadcast_to(o, self.shape)._flat())
        return self

    def add(self, o):
        return self + o

    def sub(self, o):
        return self - o

    def mul(self, o):
        return self * o

    def div(self, o):
        return self / o

    def neg(self):
        return -self

    def pow(self, p):
        return self ** p

    def square(self):
        return self * self

    def reciprocal(self):
        return 1 / self

    # ------------------------------------------------------------------ matmul
    def __matmul__(self, o):
        if isinstance(o, Arr) and type(o) is not type(self):
            raise TypeError(f"unsupported operand type(s) for @: '{_qual(self)}' and '{_qual(o)}'")
        if not isinstance(o, Arr):
            return NotImplemented
        return _matmul(self, o)

    def __rmatmul__(self, o):
        if isinstance(o, Arr) and type(o) is not type(self):
            raise TypeError(f"unsupported operand type(s) for @: '{_qual(o)}' and '{_qual(self)}'")
        return NotImplemented

    def matmul(self, o):
        return self @ o

    def mm(self, o):
        if self.dim() != 2 or o.dim() != 2:
            raise RuntimeError("mm: both arguments must be matrices")
        return self @ o

    def mv(self, o):
        if self.dim() != 2 or o.dim() != 1:
            raise RuntimeError("mv: expects a matrix and a vector")
        return self @ o

    def dot(self, o):
        if type(self).__name__ == "Tensor" and (self.dim() != 1 or o.dim() != 1):
            raise RuntimeError("1D tensors expected")
        return self @ o

    # ------------------------------------------------------------------ reductions
    def _reduce(self, f, dim=None, keepdim=False, kind=None, dtype=None):
        kind = kind or self.kind
        if dim is None:
            r = self._like([f(self._flat())], (), dtype=dtype, kind=kind)
            if keepdim:
                r = r.reshape((1,) * self.dim())
            return r
        if isinstance(dim, (tuple, list)):
            r = self
            for d in sorted((self._norm_dim(x) for x in dim), reverse=True):
                r = r._reduce(f, d, keepdim, kind, dtype)
            return r
        if self.dim() == 0:
            if dim in (0, -1):
                return self._like([f(self._flat())], (), dtype=dtype, kind=kind)
            raise IndexError("Dimension out of range")
        d = self._norm_dim(dim)
        moved = self.permute(*([i for i in range(self.dim()) if i != d] + [d]))
        n = self.shape[d]
        fl = moved._flat()
        outshape = [s for i, s in enumerate(self.shape) if i != d]
        cnt = _numel(outshape)
        vals = [f(fl[i * n:(i + 1) * n]) for i in range(cnt)]
        r = self._like(vals, outshape, dtype=dtype, kind=kind)
        if keepdim:
            r = r.unsqueeze(d)
        return r

    def sum(self, dim=None, keepdim=False, dtype=None, axis=None, keepdims=False):
        if axis is not None:
            dim = axis
        keepdim = keepdim or keepdims
        if self.kind == "bool":
            return self._reduce(lambda xs: sum(_conv(x, "int") for x in xs), dim, keepdim, "int", int64)
        if self.kind == "int":
            return self._reduce(lambda xs: sum(xs), dim, keepdim)
        return self._reduce(_sum, dim, keepdim)

    def mean(self, dim=None, keepdim=False, axis=None):
        if axis is not None:
            dim = axis
        if self.kind != "real":
            raise RuntimeError("mean(): could not infer output dtype. Input dtype must be either a floating point or complex dtype.")
        def f(xs):
            if not xs:
                return NAN
            return _sum(xs) / len(xs)
        return self._reduce(f, dim, keepdim)

    def prod(self, dim=None, keepdim=False):
        def f(xs):
            r = R(1) if self.kind == "real" else 1
            for x in xs:
                r = r * x
            return r
        return self._reduce(f, dim, keepdim)

    def all(self, dim=None, keepdim=False):
        def f(xs):
            r = B(True)
            for x in xs:
                r = r & _to_bool(x)
            return r
        return self._reduce(f, dim, keepdim, "bool", bool_)

    def any(self, dim=None, keepdim=False):
        def f(xs):
            r = B(False)
            for x in xs:
                r = r | _to_bool(x)
            return r
        return self._reduce(f, dim, keepdim, "bool", bool_)

    def abs(self):
        if self.kind != "real":
            return self._like([abs(a) for a in self._flat()])
        return self._like([a.abs() for a in self._flat()])

    def sqrt(self):
        return self._like([_to_real(a).sqrt() for a in self._flat()], kind="real")

    def exp(self):
        return self._like([_to_real(a).exp() for a in self._flat()], kind="real")

    def log2(self):
        def f(a):
            if isinstance(a, Sp):
                return a if a.k in ("nan", "inf") else NAN
            a = _to_real(a)
            if bool(a > 0):
                return a.log2()
            return NINF if bool(a == 0) else NAN
        return self._like([f(a) for a in self._flat()], kind="real")

    def floor(self):
        return self._like([a if isinstance(a, Sp) else _to_real(a).floor() for a in self._flat()], kind="real")

    def ceil(self):
        return self._like([a if isinstance(a, Sp) else _to_real(a).ceil() for a in self._flat()], kind="real")

    def exp2(self):
        def f(a):
            if isinstance(a, Sp):
                return a if a.k in ("nan", "inf") else R(0)
            return _to_real(a).exp2()
        return self._like([f(a) for a in self._flat()], kind="real")

    def sign(self):
        def sg(a):
            if isinstance(a, Sp):
                return NAN if a.k == "nan" else R(a._sgn())
            return R(1) if bool(a > 0) else (R(-1) if bool(a < 0) else R(0))
        return self._like([sg(_to_real(a)) for a in self._flat()])

    def isfinite(self):
        if self.kind != "real":
            return self._like([B(True)] * self.numel(), kind="bool")
        return self._like([a.isfinite() for a in self._flat()], kind="bool")

    def isnan(self):
        return self._like([B(isinstance(a, Sp) and a.k == "nan") for a in self._flat()], kind="bool")

    def isinf(self):
        return self._like([B(isinstance(a, Sp) and a.k != "nan") for a in self._flat()], kind="bool")

    def norm(self, p=2, dim=None, keepdim=False):
        if p not in (2, "fro", None, 2.0):
            if p == 1:
                return self.abs().sum(dim, keepdim)
            raise ShimUnsupported(f"norm p={p}")
        return (self * self).sum(dim, keepdim).sqrt()

    def max(self, dim=None, keepdim=False):
        if dim is None:
            return self._reduce(lambda xs: _extreme(xs, True)[0], None)
        vals = self._reduce(lambda xs: _extreme(xs, True)[0], dim, keepdim)
        idx = self._reduce(lambda xs: _extreme(xs, True)[1], dim, keepdim, "int", int64)
        return _NT("max", vals, idx)

    def min(self, dim=None, keepdim=False):
        if dim is None:
            return self._reduce(lambda xs: _extreme(xs, False)[0], None)
        vals = self._reduce(lambda xs: _extreme(xs, False)[0], dim, keepdim)
        idx = self._reduce(lambda xs: _extreme(xs, False)[1], dim, keepdim, "int", int64)
        return _NT("min", vals, idx)

    def argmin(self, dim=None, keepdim=False):
        return self._reduce(lambda xs: _extreme(xs, False)[1], dim, keepdim, "int", int64)

    def argmax(self, dim=None, keepdim=False):
        return self._reduce(lambda xs: _extreme(xs, True)[1], dim, keepdim, "int", int64)

    def diag(self, diagonal=0):
        return _diag(self, diagonal)

    def diagonal(self):
        assert self.dim() == 2
        n = min(self.shape)
        return self._view((n,), (self._strides[0] + self._strides[1],), self._offset)

    def trace(self):
        return self.diagonal().sum()

    def flip(self, *dims):
        if len(dims) == 1 and not isinstance(dims[0], int):
            dims = tuple(dims[0])
        r = self
        for d in dims:
            d = self._norm_dim(d)
            r = _stack([r.select(d, i) for i in reversed(range(r.shape[d]))], d) if r.shape[d] else r
        return r.clone() if r is self else r

    # ------------------------------------------------------------------ splitting (all results are views, as in torch)
    def split(self, split_size_or_sections, dim=0):
        dim = self._norm_dim(dim)
        n = self.shape[dim]
        if isinstance(split_size_or_sections, int):
            k = split_size_or_sections
            if k <= 0 and n > 0:
                raise RuntimeError("split expects split_size be non-negative and non-zero for a non-empty dimension")
            sizes = [min(k, n - a) for a in range(0, n, k)] if n else [0]
        else:
            sizes = [int(x) for x in split_size_or_sections]
            if sum(sizes) != n:
                raise RuntimeError(f"split_with_sizes expects split_sizes to sum exactly to {n} (input tensor's size at dimension {dim}), but got split_sizes={sizes}")
        out, a = [], 0
        for k in sizes:
            out.append(self.narrow(dim, a, k))
            a += k
        return tuple(out)

    def chunk(self, chunks, dim=0):
        dim = self._norm_dim(dim)
        n = self.shape[dim]
        k = -(-n // chunks) if n else 1
        return self.split(k, dim)

    def unbind(self, dim=0):
        dim = self._norm_dim(dim)
        return tuple(self.select(dim, i) for i in range(self.shape[dim]))

    def masked_fill(self, mask, value):
        v = value._as_scalar() if isinstance(value, Arr) else value
        shape = _bshape(self.shape, mask.shape)
        mf = _broadcast_to(mask, shape)._flat()
        xf = _broadcast_to(self, shape)._flat()
        return self._like([(lift(v) if bool(_to_bool(mk)) else x) for mk, x in zip(mf, xf)], shape)

    def masked_fill_(self, mask, value):
        self._write(self.masked_fill(mask, value)._flat())
        return self

    def index_select(self, dim, index):
        dim = self._norm_dim(dim)
        idx = [int(x) for x in index._flat()]
        return _stack([self.select(dim, i) for i in idx], dim) if idx else self.narrow(dim, 0, 0).clone()

    def cumsum(self, dim):
        dim = self._norm_dim(dim)
        parts, acc = [], None
        for i in range(self.shape[dim]):
            cur = self.select(dim, i)
            acc = cur if acc is None else acc + cur
            parts.append(acc)
        return _stack(parts, dim) if parts else self.clone()

    def clamp_min(self, min):
        return self.clamp(min=min)

    def clamp_max(self, max):
        return self.clamp(max=max)

    def amax(self, dim=None, keepdim=False):
        r = self.max(dim, keepdim)
        return r if dim is None else r[0]

    def amin(self, dim=None, keepdim=False):
        r = self.min(dim, keepdim)
        return r if dim is None else r[0]

    def count_nonzero(self):
        return sum(1 for x in self._flat() if bool(_to_bool(x != 0) if not isinstance(x, (bool, int)) else x != 0))

    def select(self, dim, i):
        dim = self._norm_dim(dim)
        idx = [slice(None)] * dim + [i]
        return self[tuple(idx)]

    def clamp(self, min=None, max=None):
        def f(a):
            if min is not None and bool(a < min):
                return lift(min)
            if max is not None and bool(a > max):
                return lift(max)
            return a
        return self._like([f(a) for a in self._flat()])

    def nan_to_num(self, nan=0.0, posinf=None, neginf=None):
        return _nan_to_num(self, nan, posinf, neginf)


class _NT(tuple):
    """tiny namedtuple-like for (values, indices)"""

    def __new__(cls, name, values, indices):
        r = tuple.__new__(cls, (values, indices))
        r.values, r.indices = values, indices
        return r


def _okind(o):
    if isinstance(o, Arr):
        return o.kind
    return _kind_of(o)


def _qual(a):
    return "numpy.ndarray" if type(a).__name__ == "ndarray" else "Tensor"


def _div(a, b):
    return _to_real(a) / _to_real(b)


def _sum(xs):
    r = R(0)
    for x in xs:
        r = r + x
    return r


def _dot(xs, ys):
    return _sum([x * y for x, y in zip(xs, ys)])


def _extreme(xs, want_max):
    """(value, first index) of the max/min, forking on comparisons (first index wins ties; nan propagates)."""
    if not xs:
        raise RuntimeError("reduction over an empty dimension")
    best, bi = xs[0], 0
    for i, x in enumerate(xs[1:], 1):
        if isinstance(x, Sp) and x.k == "nan":
            if not (isinstance(best, Sp) and best.k == "nan"):
                best, bi = x, i
            continue
        if isinstance(best, Sp) and best.k == "nan":
            continue
        if isinstance(x, (int, bool)) and isinstance(best, (int, bool)):
            better = x > best if want_max else x < best
        else:
            _no_tie(x, best)
            better = bool(_to_real(x) > _to_real(best)) if want_max else bool(_to_real(x) < _to_real(best))
        if better:
            best, bi = x, i
    return best, bi


def _no_tie(x, y):
    """precondition 'no exact ties' (only when the harness switched it on): cut paths where x == y"""
    import torch
    if torch.KERNELS.get("no_ties"):
        symx.space().assume_feasible((_to_real(x) != _to_real(y)).z())


def _bshape(a, b):
    a, b = tuple(a), tuple(b)
    n = max(len(a), len(b))
    a = (1,) * (n - len(a)) + a
    b = (1,) * (n - len(b)) + b
    out = []
    for x, y in zip(a, b):
        if x == y or y == 1:
            out.append(x)
        elif x == 1:
            out.append(y)
        else:
            raise RuntimeError(f"The size of tensor a ({x}) must match the size of tensor b ({y}) at non-singleton dimension")
    return tuple(out)


def _broadcast_to(t, shape):
    if tuple(t.shape) == tuple(shape):
        return t
    return t.expand(*shape)


def _matmul(a, b):
    cls = type(a)
    if a.kind != b.kind:
        raise RuntimeError(f"expected m1 and m2 to have the same dtype, but got: {a.dtype} != {b.dtype}")
    if a.kind == "real" and a.dtype is not b.dtype and cls.__name__ == "Tensor":
        raise RuntimeError(f"expected m1 and m2 to have the same dtype, but got: {a.dtype} != {b.dtype}")
    dt = _promote(a.dtype, b.dtype)
    zero = R(0) if a.kind == "real" else 0
    def dot(xs, ys):
        r = zero
        for x, y in zip(xs, ys):
            r = r + x * y
        return r
    if a.dim() == 0 or b.dim() == 0:
        raise RuntimeError("both arguments to matmul need to be at least 1D")
    if a.dim() == 1 and b.dim() == 1:
        if a.shape[0] != b.shape[0]:
            raise RuntimeError(f"inconsistent tensor size, expected tensor [{a.shape[0]}] and src [{b.shape[0]}] to have the same number of elements")
        return cls._make([dot(a._flat(), b._flat())], (), dt, a.kind)
    if a.dim() == 2 and b.dim() == 1:
        m, n = a.shape
        if n != b.shape[0]:
            raise RuntimeError(f"size mismatch, got input ({m}x{n}), vec ({b.shape[0]})")
        af, bf = a._flat(), b._flat()
        return cls._make([dot(af[i * n:(i + 1) * n], bf) for i in range(m)], (m,), dt, a.kind)
    if a.dim() == 1 and b.dim() == 2:
        k, n = b.shape
        if k != a.shape[0]:
            raise RuntimeError(f"size mismatch, got input ({a.shape[0]}), mat ({k}x{n})")
        af, bf = a._flat(), b._flat()
        return cls._make([dot(af, bf[j::n]) for j in range(n)], (n,), dt, a.kind)
    if a.dim() == 2 and b.dim() == 2:
        m, k = a.shape
        k2, n = b.shape
        if k != k2:
            raise RuntimeError(f"mat1 and mat2 shapes cannot be multiplied ({m}x{k} and {k2}x{n})")
        af, bf = a._flat(), b._flat()
        cols = [bf[j::n] for j in range(n)]
        return cls._make([dot(af[i * k:(i + 1) * k], cols[j]) for i in range(m) for j in range(n)], (m, n), dt, a.kind)
    raise ShimUnsupported("batched matmul")


def _cat(ts, dim=0):
    ts = list(ts)
    if not ts:
        raise RuntimeError("torch.cat(): expected a non-empty list of Tensors")
    cls = type(ts[0])
    for t in ts:
        if type(t) is not cls:
            raise TypeError("expected Tensor as element of sequence")
    # legacy: 1-d empty tensors are skipped
    ts2 = [t for t in ts if not (t.dim() == 1 and t.shape[0] == 0)]
    if not ts2:
        return ts[0].clone()
    nd = ts2[0].dim()
    if nd == 0:
        raise RuntimeError("zero-dimensional tensor (at position 0) cannot be concatenated")
    d = dim + nd if dim < 0 else dim
    if not 0 <= d < nd:
        raise IndexError("Dimension out of range")
    ref = ts2[0].shape
    for t in ts2:
        if t.dim() != nd:
            raise RuntimeError("Tensors must have same number of dimensions")
        if any(i != d and a != b for i, (a, b) in enumerate(zip(t.shape, ref))):
            raise RuntimeError(f"Sizes of tensors must match except in dimension {d}")
    outer = _numel(ref[:d])
    flats = [t._flat() for t in ts2]
    inner = [_numel(t.shape[d:]) for t in ts2]
    out = []
    for o in range(outer):
        for fl, inn in zip(flats, inner):
            out.extend(fl[o * inn:(o + 1) * inn])
    shape = list(ref)
    shape[d] = sum(t.shape[d] for t in ts2)
    dt = ts2[0].dtype
    for t in ts2[1:]:
        dt = _promote(dt, t.dtype)
    kind = ts2[0].kind
    if any(t.kind != kind for t in ts2):
        order = {"bool": 0, "int": 1, "real": 2}
        kind = max((t.kind for t in ts2), key=lambda k: order[k])
        out = [_conv(x, kind) for x in out]
    return cls._make(out, shape, dt, kind)


def _stack(ts, dim=0):
    ts = list(ts)
    if not ts:
        raise RuntimeError("stack expects a non-empty TensorList")
    sh = ts[0].shape
    for t in ts:
        if tuple(t.shape) != tuple(sh):
            raise RuntimeError(f"stack expects each tensor to be equal size, but got {list(sh)} at entry 0 and {list(t.shape)}")
    nd = len(sh) + 1
    d = dim + nd if dim < 0 else dim
    if not 0 <= d < nd:
        raise IndexError("Dimension out of range")
    return _cat([t.unsqueeze(d) for t in ts], d)


def _diag(t, diagonal=0):
    if diagonal != 0:
        raise ShimUnsupported("diag offset")
    if t.dim() == 1:
        n = t.shape[0]
        fl = t._flat()
        zero = R(0) if t.kind == "real" else (B(False) if t.kind == "bool" else 0)
        return t._like([fl[i] if i == j else zero for i in range(n) for j in range(n)], (n, n))
    if t.dim() == 2:
        return t.diagonal().clone()
    raise RuntimeError("diag(): Supports 1D or 2D tensors")


def _nan_to_num(t, nan=0.0, posinf=None, neginf=None):
    def f(a):
        if isinstance(a, Sp):
            if a.k == "nan":
                return lift(nan)
            if a.k == "inf":
                if posinf is None:
                    raise ShimUnsupported("nan_to_num(+inf) -> dtype max")
                return lift(posinf)
            if neginf is None:
                raise ShimUnsupported("nan_to_num(-inf) -> dtype min")
            return lift(neginf)
        return a
    return t._like([f(a) for a in t._flat()])


def _from_data(cls, data, dtype=None):
    """nested lists / scalars -> array"""
    if isinstance(data, Arr):
        r = cls._make(data._flat(), data.shape, data.dtype, data.kind)
        return r._cast(dtype) if dtype is not None else r
    def shape_of(d):
        if isinstance(d, (list, tuple)):
            if not d:
                return (0,)
            return (len(d),) + shape_of(d[0])
        if isinstance(d, Arr):
            return tuple(d.shape)
        return ()
    def flat_of(d):
        if isinstance(d, (list, tuple)):
            out = []
            for x in d:
                out.extend(flat_of(x))
            return out
        if isinstance(d, Arr):
            return d._flat()
        return [d]
    shape = shape_of(data)
    flat = flat_of(data)
    kinds = {_kind_of(x) for x in flat} or {"real"}
    order = {"bool": 0, "int": 1, "real": 2}
    kind = max(kinds, key=lambda k: order[k])
    if dtype is not None and kind == "real" and dtype.is_floating_point:
        return cls._make(flat, shape, dtype, kind)  # python numbers are created directly in the requested dtype: no conversion takes place
    r = cls._make(flat, shape, None, kind)
    if dtype is not None:
        r = r._cast(dtype)
    return r


def _full(cls, shape, val, dtype=None):
    if isinstance(shape, int):
        shape = (shape,)
    shape = tuple(int(s) for s in shape)
    if isinstance(val, Arr):
        val = val._as_scalar()
    kind = _kind_of(val)
    if dtype is not None:
        if isinstance(dtype, str):
            dtype = _DT[dtype]
        kind = "real" if dtype.is_floating_point else ("bool" if dtype is bool_ else "int")
    elif kind == "real":
        dtype = cls._default_float
    return cls._make([_conv(val, kind) for _ in range(_numel(shape))], shape, dtype, kind)


def _shape_args(shape):
    if len(shape) == 1 and not isinstance(shape[0], int):
        return tuple(shape[0])
    return tuple(shape)
