"""numpy model (the handful of entry points torchjd uses).  numpy.ndarray is a distinct type from
torch.Tensor on the same symbolic storage model; the two do not inter-operate except through
Tensor.numpy() / torch.from_numpy(), as in reality."""
import builtins as _bi

import symx as _symx
from symx import R as _R, ShimUnsupported
import _core
from _core import Arr as _Arr, float32, float64, int64, int32, bool_, _numel, _full, _from_data, _cat, _stack, dtype_ as dtype

float_ = float64
double = float64
newaxis = None
pi = 3.141592653589793
inf = float("inf")
nan = float("nan")


class ndarray(_Arr):
    _default_float = float64

    def __init__(self, *a, **k):
        if a and not isinstance(a[0], _core.Storage):
            raise ShimUnsupported("np.ndarray(shape) constructor")
        super().__init__(*a, **k)

    def _view(self, shape, strides, offset):
        return ndarray(self._storage, shape, strides, offset, self.dtype, self.kind)

    def dot(self, o):
        return self @ o

    @property
    def size_(self):
        return self.numel()

    def __array__(self, *a, **k):
        return self


# numpy's .size is an int attribute (torch's is a method); give ndarray the numpy flavour
ndarray.size = property(lambda self: self.numel())


def _sh(shape):
    return (shape,) if isinstance(shape, _bi.int) else tuple(shape)


def zeros(shape, dtype=None):
    return _full(ndarray, _sh(shape), _R(0) if dtype is None or dtype.is_floating_point else 0, dtype or float64)


def ones(shape, dtype=None):
    return _full(ndarray, _sh(shape), _R(1) if dtype is None or dtype.is_floating_point else 1, dtype or float64)


def zeros_like(a, dtype=None):
    return zeros(a.shape, dtype or a.dtype)


def ones_like(a, dtype=None):
    return ones(a.shape, dtype or a.dtype)


def full(shape, v, dtype=None):
    return _full(ndarray, _sh(shape), v, dtype)


def eye(n, m=None, dtype=None):
    m = n if m is None else m
    return ndarray._make([_R(1) if i == j else _R(0) for i in range(n) for j in range(m)], (n, m), dtype or float64)


identity = eye


def array(data, dtype=None):
    r = _from_data(ndarray, data, dtype)
    if r.kind == "real" and dtype is None and not isinstance(data, _Arr):
        r.dtype = float64
    return r


def asarray(data, dtype=None):
    if isinstance(data, ndarray) and (dtype is None or dtype is data.dtype):
        return data
    return array(data, dtype)


def concatenate(arrs, axis=0):
    return _cat(arrs, axis)


def stack(arrs, axis=0):
    return _stack(arrs, axis)


def sum(a, axis=None):
    return a.sum(axis)


def abs(a):
    return a.abs()


def sqrt(a):
    return a.sqrt() if isinstance(a, _Arr) else _symx.lift(a).sqrt()


def dot(a, b):
    return a @ b


def diag(a):
    return _core._diag(a)


def isfinite(a):
    return a.isfinite()


def all(a):
    return a.all()


def any(a):
    return a.any()


def array_equal(a, b, equal_nan=False):
    """True iff same shape and all entries equal: decided entry by entry (forks on symbolic entries)"""
    if not isinstance(a, ndarray):
        a = array(a)
    if not isinstance(b, ndarray):
        b = array(b)
    if tuple(a.shape) != tuple(b.shape):
        return False
    for x, y in zip(a._flat(), b._flat()):
        if not _bi.bool(_core._to_bool(x == y)):
            return False
    return True


def isclose(a, b, rtol=1e-05, atol=1e-08, equal_nan=False):
    if not isinstance(a, ndarray):
        a = array(a)
    if not isinstance(b, ndarray):
        b = array(b)
    return abs(a - b) <= (atol + rtol * abs(b))


def allclose(a, b, rtol=1e-05, atol=1e-08, equal_nan=False):
    return _bi.bool(isclose(a, b, rtol, atol).all())


def maximum(a, b):
    a = a if isinstance(a, ndarray) else array(a)
    b = b if isinstance(b, ndarray) else array(b)
    return where(a >= b, a, b)


def minimum(a, b):
    a = a if isinstance(a, ndarray) else array(a)
    b = b if isinstance(b, ndarray) else array(b)
    return where(a <= b, a, b)


def where(c, a, b):
    a = a if isinstance(a, ndarray) else array(a)
    b = b if isinstance(b, ndarray) else array(b)
    shape = _core._bshape(_core._bshape(c.shape, a.shape), b.shape)
    cf = _core._broadcast_to(c, shape)._flat()
    af = _core._broadcast_to(a, shape)._flat()
    bf = _core._broadcast_to(b, shape)._flat()
    return ndarray._make([x if _bi.bool(_core._to_bool(k)) else y for k, x, y in zip(cf, af, bf)], shape, a.dtype, a.kind)


def clip(a, a_min=None, a_max=None):
    return a.clamp(a_min, a_max)


def mean(a, axis=None):
    return a.mean(axis)


def outer(a, b):
    return a.reshape(-1, 1) * b.reshape(1, -1)


def matmul(a, b):
    return a @ b


def copy(a):
    return a.copy()


def apply_along_axis(func1d, axis, arr, *args, **kwargs):
    if not isinstance(arr, ndarray):
        arr = array(arr)
    nd = arr.dim()
    if nd == 0:
        raise ValueError("Cannot apply_along_axis when any iteration dimensions are 0")
    axis = axis + nd if axis < 0 else axis
    if nd == 1:
        r = func1d(arr, *args, **kwargs)
        return r if isinstance(r, ndarray) else array(r)
    # iterate over all other dims in row-major order, apply func1d to the 1-d slice along `axis`
    other = [d for d in range(nd) if d != axis]
    moved = arr.permute(*(other + [axis]))
    lead = tuple(moved.shape[:-1])
    if _numel(lead) == 0:
        raise ValueError("Cannot apply_along_axis when any iteration dimensions are 0")
    flat2 = moved.reshape(_numel(lead), moved.shape[-1])
    outs = []
    for i in range(flat2.shape[0]):
        r = func1d(flat2[i].copy(), *args, **kwargs)
        outs.append(r if isinstance(r, ndarray) else array(r))
    res = _stack(outs, 0)  # [prod(lead), *rshape]
    rshape = tuple(outs[0].shape)
    res = res.reshape(lead + rshape)
    # numpy puts the result dims where `axis` was
    k = len(lead)
    perm = list(range(k))
    perm[axis:axis] = list(range(k, k + len(rshape)))
    return res.permute(*perm).contiguous() if rshape else res


from numpy import linalg  # noqa: E402


def __getattr__(name):
    if name.startswith("__"):
        raise AttributeError(name)
    raise ShimUnsupported(f"numpy.{name} is not modelled")
