from symx import ShimUnsupported


def norm(a, ord=None, axis=None):
    if ord not in (None, 2, "fro"):
        raise ShimUnsupported(f"np.linalg.norm ord={ord}")
    if ord == 2 and a.dim() == 2 and axis is None:
        raise ShimUnsupported("spectral norm")
    r = (a * a).sum(axis).sqrt()
    return r._as_scalar() if r.dim() == 0 else r


def __getattr__(name):
    if name.startswith("__"):
        raise AttributeError(name)
    raise ShimUnsupported(f"numpy.linalg.{name} is not modelled")
