"""torch.autograd.graph model: Node objects as torchjd's graph walk reads them."""


class Node:
    """grad_fn of a non-leaf tensor (one per op, shared by all outputs of the op)."""

    _ids = iter(range(1, 10 ** 9))

    NF_READS = 0  # how many times any node's next_functions was read (a graph walk that marks visited nodes reads each node's once)

    @property
    def next_functions(self):
        Node.NF_READS += 1
        return self._next_functions

    @next_functions.setter
    def next_functions(self, v):
        self._next_functions = v

    def __init__(self, name="OpBackward"):
        self._name = name
        self._next_functions = ()
        self.freed = False
        self.saves = True
        self.vmap_ok = True
        self.idx = next(Node._ids)

    def name(self):
        return self._name

    def __repr__(self):
        return f"<{self._name} #{self.idx}>"


def _mk_acc_class():
    # the class must literally be called AccumulateGrad: torchjd looks at node.__class__.__name__
    class AccumulateGrad(Node):
        def __init__(self, variable):
            Node.__init__(self, "AccumulateGrad")
            self.variable = variable
            self.saves = False

    return AccumulateGrad


AccumulateGrad = _mk_acc_class()
