"""torch.autograd model.

A differentiable program acts on torchjd only through (i) the shape of its graph and (ii) the local
Jacobian of every op w.r.t. its inputs.  Programs are built with `leaf()` / `op()` below: the local
Jacobians are arbitrary (symbolic) matrices, so every real op at every point is an instance.

grad()/backward() implement torch's reverse sweep: only the nodes on a path from the roots to a requested
input are executed (torch's exec_info rule); executed nodes are freed unless retain_graph; executing a freed
node that saves tensors raises RuntimeError; grad() never touches .grad; backward() accumulates into leaf
.grad; a sweep issued under vmap counts as ONE batched sweep and raises on vmap-incompatible nodes."""
import symx
from symx import R, ShimUnsupported
import _core
from _core import log, _numel
from torch.autograd import graph
from torch.autograd.graph import Node, AccumulateGrad


class Op(Node):
    def __init__(self, name, inputs, saves=True, vmap_ok=True):
        Node.__init__(self, name)
        self.inputs = list(inputs)
        self.outputs = []
        self.jac = {}  # (k, i) -> matrix [numel(out_k)][numel(in_i)] of R, absent = structurally zero
        self.saves = saves
        self.vmap_ok = vmap_ok


def leaf(shape, requires_grad=True, values=None, name="x", dtype=None, rank=None):
    import torch
    n = _numel(shape)
    vals = values if values is not None else [symx.named(f"{name}_{k}") for k in range(n)]
    t = torch.Tensor._make(vals, tuple(shape), dtype or torch.float32, "real")
    t.requires_grad = requires_grad
    t._name = name
    if rank is not None:
        t._h = rank
    if requires_grad:
        t._acc = AccumulateGrad(t)
    return t


def op(inputs, out_shapes, jac, saves=True, vmap_ok=True, name="Op", values=None, ranks=None, dtype=None):
    """jac[(k, i)] = local Jacobian of output k w.r.t. input i (list of rows), or missing for 'no dependence'."""
    import torch
    o = Op(name + "Backward", inputs, saves, vmap_ok)
    req = any(t.requires_grad for t in inputs)
    nf = []
    for t in inputs:
        if not t.requires_grad:
            nf.append((None, 0))
        elif t.grad_fn is None:
            nf.append((t._acc, 0))
        else:
            nf.append((t.grad_fn, t._out_nr))
    o.next_functions = tuple(nf)
    outs = []
    for k, sh in enumerate(out_shapes):
        n = _numel(sh)
        vals = values[k] if values is not None else [symx.named(f"{name}{o.idx}_{k}_{e}") for e in range(n)]
        t = torch.Tensor._make(vals, tuple(sh), dtype or (inputs[0].dtype if inputs else torch.float32), "real")
        t._name = f"{name}{k}"
        if ranks is not None and ranks[k] is not None:
            t._h = ranks[k]
        if req:
            t.requires_grad = True
            t.grad_fn = o
            t._op = o
            t._out_nr = k
        outs.append(t)
    o.outputs = outs
    for (k, i), M in jac.items():
        assert len(M) == outs[k].numel() and all(len(r) == inputs[i].numel() for r in M), "local Jacobian shape"
        if inputs[i].requires_grad:
            o.jac[(k, i)] = M
    return outs


def _plan(roots, requested):
    """ops to execute, in reverse creation order.  requested=None -> everything reachable (backward())."""
    req_ids = None if requested is None else {id(t) for t in requested}
    memo = {}

    def needed(o):
        if o.idx in memo:
            return memo[o.idx]
        r = False
        for i, t in enumerate(o.inputs):
            if not t.requires_grad:
                continue
            if req_ids is None:
                r = True  # any requires-grad edge leads to an accumulator
            elif id(t) in req_ids or (t._op is not None and needed(t._op)):
                r = True
        memo[o.idx] = r
        return r

    seen, out, stack = set(), [], [t._op for t in roots if t._op is not None]
    while stack:
        o = stack.pop()
        if o.idx in seen or not needed(o):
            continue
        seen.add(o.idx)
        out.append(o)
        for t in o.inputs:
            if t.requires_grad and t._op is not None:
                stack.append(t._op)
    out.sort(key=lambda o: -o.idx)
    return out


def _sweep(outputs, grad_outputs, requested, retain_graph, accumulate):
    import torch
    outputs = list(outputs)
    for k, t in enumerate(outputs):
        if not t.requires_grad:
            raise RuntimeError(f"element {k} of tensors does not require grad and does not have a grad_fn")
    if grad_outputs is None:
        grad_outputs = [None] * len(outputs)
    grad_outputs = list(grad_outputs)
    if len(grad_outputs) != len(outputs):
        raise RuntimeError(f"got {len(outputs)} tensors and {len(grad_outputs)} gradients")
    buf = {}

    def add(t, vec):
        cur = buf.get(id(t))
        buf[id(t)] = vec if cur is None else [a + b for a, b in zip(cur, vec)]

    for t, g in zip(outputs, grad_outputs):
        if g is None:
            if t.numel() != 1:
                raise RuntimeError("grad can be implicitly created only for scalar outputs")
            g = torch.ones_like(t)
        if tuple(g.shape) != tuple(t.shape):
            raise RuntimeError(f"Mismatch in shape: grad_output[0] has a shape of {g.shape} and output[0] has a shape of {t.shape}.")
        add(t, g._flat())
    plan = _plan(outputs, requested)
    in_vmap = torch._VMAP_DEPTH[0] > 0
    log("sweep", in_vmap, bool(retain_graph), tuple(o.idx for o in plan))
    for o in plan:
        if o.freed and o.saves:
            raise RuntimeError("Trying to backward through the graph a second time (or directly access saved tensors after they have already been freed).")
        if in_vmap and not o.vmap_ok:
            raise RuntimeError("You tried to vmap over an autograd.Function that does not support vmap (generate_vmap_rule / vmap staticmethod missing).")
        touched = set()
        for (k, i), M in o.jac.items():
            g = buf.get(id(o.outputs[k]))
            if g is None:
                continue
            tin = o.inputs[i]
            add(tin, [symx_sum(g[r] * M[r][c] for r in range(len(g))) for c in range(tin.numel())])
            touched.add(i)
        # an executed node hands a gradient to every input some output of it depends on: zeros when only the outputs that do NOT
        # depend on the input carry a gradient (their siblings' gradients are materialised as zeros, as torch does); an input no
        # output depends on receives nothing (None) - exactly the behaviour of the real twin programs (custom autograd.Function)
        if any(buf.get(id(t)) is not None for t in o.outputs):
            for i, tin in enumerate(o.inputs):
                if tin.requires_grad and i not in touched and any(ii == i for (_, ii) in o.jac):
                    add(tin, [R(0)] * tin.numel())
    if not retain_graph:
        for o in plan:
            if in_vmap:
                torch._VMAP_DEFER.append(o)
            else:
                o.freed = True
    return buf


def symx_sum(it):
    r = R(0)
    for x in it:
        r = r + x
    return r


def grad(outputs, inputs, grad_outputs=None, retain_graph=None, create_graph=False, only_inputs=True,
         allow_unused=None, is_grads_batched=False, materialize_grads=False):
    import torch
    if isinstance(outputs, torch.Tensor):
        outputs = [outputs]
    if isinstance(inputs, torch.Tensor):
        inputs = [inputs]
    if isinstance(grad_outputs, torch.Tensor):
        grad_outputs = [grad_outputs]
    if create_graph:
        raise ShimUnsupported("create_graph=True (differentiable Jacobian descent is outside the model)")
    if is_grads_batched:
        raise ShimUnsupported("is_grads_batched")
    if retain_graph is None:
        retain_graph = create_graph
    if allow_unused is None:
        allow_unused = materialize_grads
    outputs, inputs = list(outputs), list(inputs)
    if len(inputs) == 0:
        raise ValueError("grad requires non-empty inputs.")
    for t in inputs:
        if not t.requires_grad:
            raise RuntimeError("One of the differentiated Tensors does not require grad")
    buf = _sweep(outputs, grad_outputs, inputs, retain_graph, False)
    res = []
    for t in inputs:
        g = buf.get(id(t))
        if g is None:
            if not allow_unused:
                raise RuntimeError("One of the differentiated Tensors appears to not have been used in the graph. Set allow_unused=True if this is the desired behavior.")
            res.append(torch.zeros_like(t) if materialize_grads else None)
        else:
            res.append(torch.Tensor._make(g, t.shape, t.dtype, "real"))
    return tuple(res)


def backward(tensors, grad_tensors=None, retain_graph=None, create_graph=False, grad_variables=None, inputs=None):
    import torch
    if isinstance(tensors, torch.Tensor):
        tensors = [tensors]
    if isinstance(grad_tensors, torch.Tensor):
        grad_tensors = [grad_tensors]
    if isinstance(inputs, torch.Tensor):
        inputs = [inputs]
    if create_graph:
        raise ShimUnsupported("create_graph=True")
    if retain_graph is None:
        retain_graph = create_graph
    if inputs is not None:
        inputs = list(inputs)
        if len(inputs) == 0:
            raise RuntimeError("`inputs` argument to `backward()` cannot be empty.")
        for t in inputs:
            if not t.requires_grad:
                raise RuntimeError("One of the differentiated Tensors does not require grad")
            if t.grad_fn is not None:
                raise ShimUnsupported("backward(inputs=[non-leaf])")
    tensors = list(tensors)
    buf = _sweep(tensors, grad_tensors, inputs, retain_graph, True)
    # accumulate into leaves
    leaves = {}

    def collect(t):
        if t._op is None:
            if t.requires_grad:
                leaves[id(t)] = t
            return
        if id(t._op) in seen:
            return
        seen.add(id(t._op))
        for x in t._op.inputs:
            if x.requires_grad:
                collect(x)

    seen = set()
    for t in tensors:
        collect(t)
    targets = leaves.values() if inputs is None else inputs
    for t in targets:
        g = buf.get(id(t))
        if g is None:
            continue
        new = torch.Tensor._make(g, t.shape, t.dtype, "real")
        if t.grad is None:
            t.grad = new
        else:
            t.grad._write([a + b for a, b in zip(t.grad._flat(), g)])


class Function:
    def __init__(self, *a, **k):
        raise ShimUnsupported("torch.autograd.Function")


def __getattr__(name):
    if name.startswith("__"):
        raise AttributeError(name)
    raise ShimUnsupported(f"torch.autograd.{name} is not modelled")
