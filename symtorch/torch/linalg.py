"""torch.linalg model.  svd / pinv / eigh are CONTRACT STUBS: they return fresh solver variables constrained
by the documented mathematical contract of the kernel and by nothing else (closed forms are used where the
contract determines the answer uniquely and cheaply: inverse of a non-singular matrix, pinv of 0)."""
import itertools

import z3

import symx
from symx import B, R, Sp, ShimUnsupported
import _core
from _core import log, _sum


class LinAlgError(RuntimeError):
    pass


def _T():
    import torch
    return torch.Tensor


def _kernel(name):
    import torch
    return torch.KERNELS.get(name)


def norm(t, ord=None, dim=None, keepdim=False, **kw):
    import torch
    if isinstance(t, (torch.GramOnly, torch.RowComb)):
        return t.norm(2 if ord is None else ord, dim, keepdim)
    if ord not in (None, 2, "fro", 2.0):
        if ord == 1 and (t.dim() == 1 or dim is not None):
            return t.abs().sum(dim, keepdim)
        raise ShimUnsupported(f"linalg.norm ord={ord}")
    if ord in (2, 2.0) and dim is None and t.dim() == 2:
        raise ShimUnsupported("spectral norm")
    return (t * t).sum(dim, keepdim).sqrt()


vector_norm = norm


def _gram(A):
    """A @ A.T as a list of lists of R (uses the Gram-only interface when A is opaque)."""
    G = A @ A.T
    m = G.shape[0]
    fl = G._flat()
    return [[fl[i * m + j] for j in range(m)] for i in range(m)]


class _Poison:
    def __init__(self, what):
        self._what = what

    def __getattr__(self, name):
        raise ShimUnsupported(f"use of {self._what} (not provided by the contract stub)")


def _fresh_mat(name, m, n):
    return [[symx.fresh(f"{name}{i}{j}") for j in range(n)] for i in range(m)]


def _assume_eq(a, b):
    symx.assume(symx.lift(a).eqz(b))


def _orthonormal_cols(U, m, k):
    for a in range(k):
        for b in range(a, k):
            _assume_eq(_sum([U[i][a] * U[i][b] for i in range(m)]), 1 if a == b else 0)


def _hint_decomp(S, descending, what):
    """Spectral decomposition of a symmetric matrix S (list of rows) from the harness-provided eigenbasis hint.

    The harness parametrises its input domain by a spectral factorisation G = Q diag(d) Q^T (Q a rationally
    parametrised orthogonal matrix, see harness/common.py).  For any symmetric matrix that is diagonal in that
    basis (G itself, G / s^2, G + eps I, ...) the decomposition is then known in closed form; the stub CHECKS by
    solver that Q^T S Q is diagonal (otherwise it falls back to the fresh-variable contract), sorts the eigenvalues
    by forking comparisons and optionally flips column signs by free choice (KERNELS['eig_signs'])."""
    import torch
    hints = torch.KERNELS.get("eigbasis")
    if hints is None:
        return None
    if isinstance(hints, dict):
        hints = [hints]
    n = len(S)
    D = Q = None
    for hint in hints:
        Qc = hint["Q"]
        if len(Qc) != n:
            continue
        QtS = _matmul_l(_tr_l(Qc), S)
        Dc = _matmul_l(QtS, Qc)
        off = [Dc[i][j].eqz(0) for i in range(n) for j in range(n) if i != j]
        if off and not symx.space().proved(z3.And(*off), timeout_ms=3000):
            continue
        D, Q = Dc, Qc
        torch.KERNELS["_eig_used"] = hint
        break
    if D is None:
        return None
    d = [D[i][i] for i in range(n)]
    # sort (insertion, forking)
    order = []
    for i in range(n):
        k = len(order)
        while k > 0 and (bool(d[i] > d[order[k - 1]]) if descending else bool(d[i] < d[order[k - 1]])):
            k -= 1
        order.insert(k, i)
    cols = [[Q[r][c] for r in range(n)] for c in order]
    if torch.KERNELS.get("eig_signs"):
        for c in range(n):
            if symx.choice(2, f"{what}_sign") == 1:
                cols[c] = [-x for x in cols[c]]
    U = [[cols[c][r] for c in range(n)] for r in range(n)]
    return [d[i] for i in order], U, order


def _svd_contract(A, legacy=False):
    if A.dim() != 2:
        raise ShimUnsupported("batched svd")
    T = _T()
    m, n = A.shape
    if legacy:
        # torch.svd(G) on a symmetric PSD matrix (CAGrad): G = U diag(S) U^T
        if m != n:
            raise ShimUnsupported("torch.svd on a non-square matrix")
        fl = A._flat()
        G = [[fl[i * m + j] for j in range(m)] for i in range(m)]
        sym = z3.And(*[G[i][j].eqz(G[j][i]) for i in range(m) for j in range(i + 1, m)]) if m > 1 else z3.BoolVal(True)
        if not symx.space().proved(sym):
            raise ShimUnsupported("torch.svd stub needs a symmetric argument")
        hd = _hint_decomp(G, True, "svd_legacy")
        if hd is not None:
            d, U, _ = hd
            Ut = T._make([U[i][j] for i in range(m) for j in range(m)], (m, m), A.dtype)
            St = T._make(d, (m,), A.dtype)
            log("kernel", "svd_legacy", A, (Ut, St), "hint")
            return Ut, St, _Poison("V of torch.svd")
        k = m
        U = _fresh_mat("svU", m, k)
        S = [symx.fresh(f"svS{j}") for j in range(k)]
        _orthonormal_cols(U, m, k)
        for j in range(k):
            symx.assume((S[j] >= (S[j + 1] if j + 1 < k else 0)).z())
        for i in range(m):
            for j in range(i, m):
                _assume_eq(_sum([U[i][c] * U[j][c] * S[c] for c in range(k)]), G[i][j])
        Ut = T._make([U[i][j] for i in range(m) for j in range(k)], (m, k), A.dtype)
        St = T._make(S, (k,), A.dtype)
        log("kernel", "svd_legacy", A, (Ut, St))
        return Ut, St, _Poison("V of torch.svd")
    k = min(m, n)
    G = _gram(A)
    hd = _hint_decomp(G, True, "svd") if k == m else None
    if hd is not None:
        import torch
        d, U, order = hd
        sig = torch.KERNELS["_eig_used"].get("sigma")
        S = []
        for pos, i in enumerate(order):
            if sig is not None and symx.space().proved((sig[i] * sig[i]).eqz(d[pos])):
                S.append(sig[i])
            else:
                S.append(d[pos].sqrt())
        Ut = T._make([U[i][j] for i in range(m) for j in range(m)], (m, m), A.dtype)
        St = T._make(S, (m,), A.dtype)
        log("kernel", "svd", A, (Ut, St), "hint")
        return Ut, St, _Poison("Vh of linalg.svd")
    U = _fresh_mat("U", m, k)
    S = [symx.fresh(f"S{j}") for j in range(k)]
    _orthonormal_cols(U, m, k)
    for j in range(k):
        symx.assume((S[j] >= (S[j + 1] if j + 1 < k else 0)).z())
    for i in range(m):
        for j in range(i, m):
            _assume_eq(_sum([U[i][c] * U[j][c] * S[c] * S[c] for c in range(k)]), G[i][j])
    Ut = T._make([U[i][j] for i in range(m) for j in range(k)], (m, k), A.dtype)
    St = T._make(S, (k,), A.dtype)
    log("kernel", "svd", A, (Ut, St))
    return Ut, St, _Poison("Vh of linalg.svd")


def svd(A, full_matrices=True, **kw):
    h = _kernel("svd")
    if h is not None:
        return h(A, full_matrices)
    if full_matrices and A.shape[0] > A.shape[1]:
        raise ShimUnsupported("svd(full_matrices=True) with m > n")
    return _svd_contract(A)


def svdvals(A):
    return svd(A, full_matrices=False)[1]


def _det(M):
    n = len(M)
    if n == 0:
        return R(1)
    if n == 1:
        return M[0][0]
    if n == 2:
        return M[0][0] * M[1][1] - M[0][1] * M[1][0]
    r = R(0)
    for j in range(n):
        minor = [[M[i][c] for c in range(n) if c != j] for i in range(1, n)]
        term = M[0][j] * _det(minor)
        r = r + term if j % 2 == 0 else r - term
    return r


def _adj(M):
    n = len(M)
    if n == 1:
        return [[R(1)]]
    out = [[None] * n for _ in range(n)]
    for i in range(n):
        for j in range(n):
            minor = [[M[a][b] for b in range(n) if b != j] for a in range(n) if a != i]
            c = _det(minor)
            out[j][i] = c if (i + j) % 2 == 0 else -c
    return out


def _rows(t):
    m, n = t.shape
    fl = t._flat()
    return [[fl[i * n + j] for j in range(n)] for i in range(m)]


def _matmul_l(A, Bm):
    return [[_sum([A[i][k] * Bm[k][j] for k in range(len(Bm))]) for j in range(len(Bm[0]))] for i in range(len(A))]


def _tr_l(A):
    return [list(r) for r in zip(*A)] if A else []


def pinv(A, rcond=None, hermitian=False, **kw):
    h = _kernel("pinv")
    if h is not None:
        return h(A)
    if A.dim() != 2:
        raise ShimUnsupported("batched pinv")
    T = _T()
    m, n = A.shape
    M = _rows(A)
    if any(isinstance(x, Sp) for r in M for x in r):
        raise LinAlgError("linalg.pinv: The algorithm failed to converge because the input matrix contained non-finite values.")
    # all-zero matrix: pinv = 0
    allzero = B(True)
    for r in M:
        for x in r:
            allzero = allzero & (x == 0)
    if bool(allzero):
        res = T._make([R(0)] * (m * n), (n, m), A.dtype)
        log("kernel", "pinv", A, res, "zero")
        return res
    if m == n:
        # symmetric argument diagonal in the harness' eigenbasis: pinv(Q diag(d) Q^T) = Q diag(d^+) Q^T
        symm = all(symx._same(M[i][j].n, M[j][i].n) and symx._same(M[i][j].d, M[j][i].d) for i in range(m) for j in range(i))
        hd = _hint_decomp(M, True, "pinv") if symm else None
        if hd is not None:
            d, U, _ = hd
            dp = [(R(1) / x) if bool(x != 0) else R(0) for x in d]
            X = [[_sum([U[i][c] * dp[c] * U[j][c] for c in range(m)]) for j in range(m)] for i in range(m)]
            res = T._make([x for r in X for x in r], (m, m), A.dtype)
            log("kernel", "pinv", A, res, "eigbasis")
            return res
        d = _det(M)
        if bool(d != 0):
            res = T._make([x / d for r in _adj(M) for x in r], (m, m), A.dtype)
            log("kernel", "pinv", A, res, "inverse")
            return res
    elif m < n:
        AAt = _matmul_l(M, _tr_l(M))
        d = _det(AAt)
        if bool(d != 0):
            inv = [[x / d for x in r] for r in _adj(AAt)]
            X = _matmul_l(_tr_l(M), inv)
            res = T._make([x for r in X for x in r], (n, m), A.dtype)
            log("kernel", "pinv", A, res, "full-row-rank")
            return res
    else:
        AtA = _matmul_l(_tr_l(M), M)
        d = _det(AtA)
        if bool(d != 0):
            inv = [[x / d for x in r] for r in _adj(AtA)]
            X = _matmul_l(inv, _tr_l(M))
            res = T._make([x for r in X for x in r], (n, m), A.dtype)
            log("kernel", "pinv", A, res, "full-col-rank")
            return res
    # rank deficient: fresh X with the four Moore-Penrose equations
    X = _fresh_mat("pinv", n, m)
    AX = _matmul_l(M, X)
    XA = _matmul_l(X, M)
    AXA = _matmul_l(AX, M)
    XAX = _matmul_l(XA, X)
    for i in range(m):
        for j in range(n):
            _assume_eq(AXA[i][j], M[i][j])
    for i in range(n):
        for j in range(m):
            _assume_eq(XAX[i][j], X[i][j])
    for i in range(m):
        for j in range(i + 1, m):
            _assume_eq(AX[i][j], AX[j][i])
    for i in range(n):
        for j in range(i + 1, n):
            _assume_eq(XA[i][j], XA[j][i])
    res = T._make([x for r in X for x in r], (n, m), A.dtype)
    log("kernel", "pinv", A, res, "penrose")
    return res


def solve(A, Bv, left=True, **kw):
    """A x = b.  Non-singular A: the exact solution.  Singular A: the real kernel (LU with partial pivoting) "rarely hits an exact zero pivot" and
    returns rounding-driven numbers, or raises: both outcomes are explored - an ARBITRARY vector, or LinAlgError."""
    if A.dim() != 2 or A.shape[0] != A.shape[1]:
        raise ShimUnsupported("linalg.solve on a non-square / batched matrix")
    T = _T()
    n = A.shape[0]
    M = _rows(A)
    d = _det(M)
    vec = Bv.dim() == 1
    Bm = [[x] for x in Bv._flat()] if vec else _rows(Bv)
    if len(Bm) != n:
        raise RuntimeError("linalg.solve: incompatible shapes")
    if bool(d != 0):
        X = _matmul_l([[x / d for x in r] for r in _adj(M)], Bm)
    else:
        if symx.choice(2, "singular_solve_raises") == 1:
            raise LinAlgError("linalg.solve: The solver failed because the input matrix is singular.")
        X = [[symx.fresh(f"solve{i}{j}") for j in range(len(Bm[0]))] for i in range(n)]
    flat = [x for r in X for x in r]
    res = T._make(flat, (n,) if vec else (n, len(Bm[0])), A.dtype)
    log("kernel", "solve", A, res)
    return res


def inv(A):
    M = _rows(A)
    d = _det(M)
    if not bool(d != 0):
        raise LinAlgError("linalg.inv: The diagonal element is zero, the inversion could not be completed because the input matrix is singular.")
    n = len(M)
    return _T()._make([x / d for r in _adj(M) for x in r], (n, n), A.dtype)


def det(A):
    return _T()._make([_det(_rows(A))], (), A.dtype)


def eigh(M, UPLO="L"):
    h = _kernel("eigh")
    if h is not None:
        return h(M, UPLO)
    if M.dim() != 2 or M.shape[0] != M.shape[1]:
        raise ShimUnsupported("eigh on non-square / batched input")
    T = _T()
    n = M.shape[0]
    A = _rows(M)
    if UPLO.upper() == "U":
        S = [[A[min(i, j)][max(i, j)] for j in range(n)] for i in range(n)]
    else:
        S = [[A[max(i, j)][min(i, j)] for j in range(n)] for i in range(n)]
    if any(isinstance(x, Sp) for r in S for x in r):
        raise LinAlgError("linalg.eigh: The algorithm failed to converge because the input matrix contained non-finite values.")
    if all(isinstance(x, R) and x.conc and x.frac() == 0 for r in S for x in r):
        # eigh(0): eigenvalues 0; any orthonormal basis is a valid answer - the identity is returned (stated: one valid kernel output)
        L = T._make([R(0)] * n, (n,), M.dtype)
        Vt = T._make([R(1) if i == j else R(0) for i in range(n) for j in range(n)], (n, n), M.dtype)
        log("kernel", "eigh", M, (L, Vt), "zero")
        return _core._NT("eigh", L, Vt)
    hd = _hint_decomp(S, False, "eigh")
    if hd is not None:
        d, U, _ = hd
        L = T._make(d, (n,), M.dtype)
        Vt = T._make([U[i][j] for i in range(n) for j in range(n)], (n, n), M.dtype)
        log("kernel", "eigh", M, (L, Vt), "hint")
        return _core._NT("eigh", L, Vt)
    lam = [symx.fresh(f"lam{i}") for i in range(n)]
    V = _fresh_mat("V", n, n)
    _orthonormal_cols(V, n, n)
    for i in range(n - 1):
        symx.assume((lam[i] <= lam[i + 1]).z())
    for i in range(n):
        for j in range(i, n):
            _assume_eq(_sum([V[i][c] * V[j][c] * lam[c] for c in range(n)]), S[i][j])
    L = T._make(lam, (n,), M.dtype)
    Vt = T._make([V[i][j] for i in range(n) for j in range(n)], (n, n), M.dtype)
    log("kernel", "eigh", M, (L, Vt))
    return _core._NT("eigh", L, Vt)


def matrix_rank(*a, **k):
    raise ShimUnsupported("matrix_rank")


def __getattr__(name):
    if name.startswith("__"):
        raise AttributeError(name)
    raise ShimUnsupported(f"torch.linalg.{name} is not modelled")
