"""torch.nn model: Module is a plain object whose __call__ runs forward (hooks are not modelled)."""
from symx import ShimUnsupported


class Module:
    training = True

    def __init__(self, *a, **k):
        self._forward_hooks = {}

    def __call__(self, *a, **k):
        return self.forward(*a, **k)

    def forward(self, *a, **k):
        raise NotImplementedError

    def register_forward_hook(self, *a, **k):
        raise ShimUnsupported("forward hooks")

    def parameters(self, recurse=True):
        return iter(())

    def modules(self):
        yield self
        for v in vars(self).values():
            if isinstance(v, Module):
                yield from v.modules()

    def train(self, mode=True):
        return self

    def eval(self):
        return self

    def to(self, *a, **k):
        return self

    def __repr__(self):
        return f"{type(self).__name__}()"


from torch import Tensor as _Tensor  # noqa: E402  (torch imports this module last: Tensor is defined by then)


class Parameter(_Tensor):
    """torch.nn.Parameter: a Tensor subclass.  Constructing one is outside the model; a harness turns an existing model leaf into a
    parameter with `t.__class__ = Parameter` (C20: a FROZEN nn.Parameter among the requested parameters must be refused like any other
    tensor that does not require grad)."""

    def __new__(cls, *a, **k):
        raise ShimUnsupported("torch.nn.Parameter construction is not modelled")


from torch.nn import functional  # noqa: E402


def __getattr__(name):
    if name.startswith("__"):
        raise AttributeError(name)
    raise ShimUnsupported(f"torch.nn.{name} is not modelled")
