from symx import ShimUnsupported


def softmax(t, dim=None, **kw):
    import torch
    return torch._softmax(t, -1 if dim is None else dim)


def one_hot(t, num_classes=-1):
    import torch
    return torch.one_hot(t, num_classes)


def normalize(t, p=2.0, dim=1, eps=1e-12):
    """x / max(||x||_p, eps) along dim (torch semantics, note the ABSOLUTE eps)"""
    import torch
    if p not in (2, 2.0):
        raise ShimUnsupported("F.normalize p != 2")
    nrm = t.norm(2, dim, keepdim=True)
    den = nrm._like([x if bool(x >= eps) else torch._lift(eps) for x in nrm._flat()])
    return t / den


def __getattr__(name):
    if name.startswith("__"):
        raise AttributeError(name)
    raise ShimUnsupported(f"torch.nn.functional.{name} is not modelled")
