from symx import ShimUnsupported


def softmax(t, dim=None, **kw):
    import torch
    return torch._softmax(t, -1 if dim is None else dim)


def one_hot(t, num_classes=-1):
    import torch
    return torch.one_hot(t, num_classes)


def normalize(t, p=2.0, dim=1, eps=1e-12):
    """x / max(||x||_p, eps) along dim (torch semantics, note the ABSOLUTE eps)"""
    import torch
    if p not in (2, 2.0):
        raise ShimUnsupported("F.normalize p != 2")
    nrm = t.norm(2, dim, keepdim=True)
    den = nrm._like([x if bool(x >= eps) else torch._lift(eps) for x in nrm._flat()])
    return t / den


def pairwise_distance(x1, x2, p=2.0, eps=1e-6, keepdim=False):
    """|| x1 - x2 + eps ||_p along the last dimension (torch semantics: eps is ADDED to every coordinate of the difference)"""
    if p not in (2, 2.0):
        raise ShimUnsupported("F.pairwise_distance p != 2")
    d = x1 - x2 + eps
    return (d * d).sum(-1, keepdim).sqrt()


def relu(t):
    return t.clamp(min=0)


def cosine_similarity(x1, x2, dim=1, eps=1e-8):
    import torch
    n1 = (x1 * x1).sum(dim).sqrt()
    n2 = (x2 * x2).sum(dim).sqrt()
    den = n1._like([x if bool(x >= eps) else torch._lift(eps) for x in n1._flat()]) * n2._like([x if bool(x >= eps) else torch._lift(eps) for x in n2._flat()])
    return (x1 * x2).sum(dim) / den


def __getattr__(name):
    if name.startswith("__"):
        raise AttributeError(name)
    raise ShimUnsupported(f"torch.nn.functional.{name} is not modelled")
