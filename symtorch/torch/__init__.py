"""Model of the `torch` entry points used by torchjd (symbolic elements, exact reals).

Anything that is not modelled raises symx.ShimUnsupported (=> the check is *inconclusive*, exit 2);
it never silently passes and never reports a violation."""
from __future__ import annotations

import math as _math
import sys as _sys

import z3 as _z3

import symx as _symx
from symx import B as _B, R as _R, Sp as _Sp, NAN as _NAN, INF as _INF, NINF as _NINF, ShimUnsupported, lift as _lift
import _core
from _core import (Arr as _Arr, Size, device, float32, float64, float16, int64, int32, bool_ as bool, dtype_ as dtype,
                   EVENTS, log as _log, _numel, _shape_args, _full, _from_data, _cat, _stack, _to_real, _to_bool,
                   _extreme, _sum, _NT)

float = float32
double = float64
long = int64
int = int32
__version__ = "2.model"


class Tensor(_Arr):
    """torch.Tensor model: strided view over shared storage + the autograd attributes torchjd reads."""

    _default_float = float32
    requires_grad = False
    grad_fn = None
    retains_grad = False
    _grad = None
    _op = None        # producing op (autograd model)
    _out_nr = 0
    _acc = None       # AccumulateGrad node of a leaf
    _name = None

    def __init__(self, *a, **k):
        if a and not isinstance(a[0], _core.Storage):
            raise ShimUnsupported("torch.Tensor(data) constructor")
        super().__init__(*a, **k)

    # --- autograd attributes
    @property
    def is_leaf(self):
        return self.grad_fn is None

    @property
    def grad(self):
        return self._grad

    @grad.setter
    def grad(self, v):
        if v is not None:
            if not isinstance(v, Tensor):
                raise TypeError("assigned grad expected to be a Tensor or None")
            if tuple(v.shape) != tuple(self.shape):
                raise RuntimeError("assigned grad has data of a different size")
            if v.dtype is not self.dtype:
                raise RuntimeError("assigned grad has data of a different type")
        _log("grad_set", id(self), None if v is None else v._storage.sid)
        self._grad = v

    @property
    def data(self):
        return self.detach()

    def requires_grad_(self, flag=True):
        if not flag and self.grad_fn is not None:
            raise RuntimeError("you can only change requires_grad flags of leaf variables.")
        self.requires_grad = flag
        return self

    def retain_grad(self):
        raise ShimUnsupported("retain_grad() (documented limitation of torchjd, outside every claim)")

    def backward(self, gradient=None, retain_graph=None, create_graph=False, inputs=None):
        from torch import autograd
        autograd.backward([self], None if gradient is None else [gradient], retain_graph, create_graph, inputs=inputs)

    def detach(self):
        return Tensor(self._storage, self.shape, self._strides, self._offset, self.dtype, self.kind)

    def _view(self, shape, strides, offset):
        r = Tensor(self._storage, shape, strides, offset, self.dtype, self.kind)
        r._isview = True
        # views of graph tensors are not tracked by the autograd model; torchjd never differentiates through them
        return r

    def to(self, *args, device=None, dtype=None, **kw):
        for a in args:
            if isinstance(a, _core.dtype_):
                dtype = a
            elif isinstance(a, (_core.device, str)):
                device = a
            elif isinstance(a, Tensor):
                dtype = a.dtype
        if dtype is None or dtype is self.dtype:
            return self
        return self._cast(dtype)

    def type(self, dtype=None):
        return self._cast(dtype) if dtype is not None else f"torch.{self.dtype}"

    def cpu(self):
        return self

    def cuda(self, *a, **k):
        raise ShimUnsupported("cuda")

    def numpy(self):
        import numpy
        if self.requires_grad:
            raise RuntimeError("Can't call numpy() on Tensor that requires grad. Use tensor.detach().numpy() instead.")
        return numpy.ndarray(self._storage, self.shape, self._strides, self._offset, self.dtype, self.kind)

    def __array__(self, *a, **k):
        raise ShimUnsupported("implicit Tensor -> numpy conversion")

    def new_zeros(self, *shape):
        return zeros(*shape, dtype=self.dtype)

    def element_size(self):
        return self.dtype.bits // 8

    def data_ptr(self):
        return self._storage.sid * 4096 + self._offset * self.element_size()

    def untyped_storage(self):
        return self._storage

    def softmax(self, dim):
        return _softmax(self, dim)

    # constructors / reshapers that take their metadata from another tensor
    def new_ones(self, *size, dtype=None, device=None, requires_grad=False):
        return ones(*size, dtype=dtype or self.dtype, requires_grad=requires_grad)

    def new_zeros(self, *size, dtype=None, device=None, requires_grad=False):
        return zeros(*size, dtype=dtype or self.dtype, requires_grad=requires_grad)

    def new_full(self, size, fill_value, dtype=None, device=None, requires_grad=False):
        return full(size, fill_value, dtype=dtype or self.dtype, requires_grad=requires_grad)

    def new_empty(self, *size, dtype=None, device=None, requires_grad=False):
        return empty(*size, dtype=dtype or self.dtype, requires_grad=requires_grad)

    def new_tensor(self, data, dtype=None, device=None, requires_grad=False):
        return tensor(data, dtype=dtype or self.dtype, requires_grad=requires_grad)

    def view_as(self, other):
        return self.view(*other.shape)

    def reshape_as(self, other):
        return self.reshape(*other.shape)

    def expand_as(self, other):
        return self.expand(*other.shape)

    def type_as(self, other):
        return self.to(dtype=other.dtype)

    def topk(self, k, dim=-1, largest=True, sorted=True):
        return topk(self, k, dim, largest, sorted)

    def sort(self, dim=-1, descending=False, stable=False):
        return sort(self, dim, descending)

    def argsort(self, dim=-1, descending=False, stable=False):
        return argsort(self, dim, descending)

    def cumsum(self, dim):
        d = self._norm_dim(dim)
        pieces = []
        acc = None
        for i in range(self.shape[d]):
            s = self.select(d, i)
            acc = s if acc is None else acc + s
            pieces.append(acc)
        return _stack(pieces, d)

    def __deepcopy__(self, memo):
        r = self.clone()
        r.requires_grad = self.requires_grad
        return r


_core.Tensor = Tensor


def _dt(dtype):
    return dtype


def _mk(shape, val, dtype=None):
    return _full(Tensor, shape, val, dtype)


def is_tensor(x):
    return isinstance(x, Tensor)


def zeros(*shape, device=None, dtype=None, requires_grad=False, **kw):
    t = _mk(_shape_args(shape), _R(0) if dtype is None or dtype.is_floating_point else 0, dtype)
    t.requires_grad = requires_grad
    return t


def ones(*shape, device=None, dtype=None, requires_grad=False, **kw):
    t = _mk(_shape_args(shape), _R(1) if dtype is None or dtype.is_floating_point else 1, dtype)
    t.requires_grad = requires_grad
    return t


def empty(*shape, device=None, dtype=None, requires_grad=False, **kw):
    # uninitialised memory: modelled as arbitrary (fresh) finite values so that nothing can rely on it
    shape = _shape_args(shape)
    if dtype is not None and not dtype.is_floating_point:
        return _mk(shape, 0, dtype)
    return Tensor._make([_symx.fresh("uninit") for _ in range(_numel(shape))], shape, dtype or float32, "real")


def full(size, fill_value, device=None, dtype=None, requires_grad=False, **kw):
    if isinstance(fill_value, builtins_float):
        fill_value = _lift(fill_value)
    return _mk(tuple(size) if not isinstance(size, builtins_int) else (size,), fill_value, dtype)


import builtins as _bi
builtins_float = _bi.float
builtins_int = _bi.int
builtins_bool = _bi.bool


def zeros_like(t, dtype=None, device=None, **kw):
    dt = dtype or t.dtype
    return _mk(t.shape, _R(0) if dt.is_floating_point else (False if dt is bool else 0), dt)


def ones_like(t, dtype=None, device=None, **kw):
    dt = dtype or t.dtype
    return _mk(t.shape, _R(1) if dt.is_floating_point else (True if dt is bool else 1), dt)


def full_like(t, v, dtype=None, **kw):
    return _mk(t.shape, v, dtype or t.dtype)


def empty_like(t, **kw):
    return empty(t.shape, dtype=t.dtype)


def eye(n, m=None, device=None, dtype=None, **kw):
    m = n if m is None else m
    dt = dtype or float32
    one, zero = (_R(1), _R(0)) if dt.is_floating_point else (1, 0)
    return Tensor._make([one if i == j else zero for i in range(n) for j in range(m)], (n, m), dt)


def arange(*a, dtype=None, device=None, **kw):
    r = list(range(*[builtins_int(x) for x in a]))
    return Tensor._make(r, (len(r),), dtype or int64, "int") if dtype is None or not dtype.is_floating_point else Tensor._make([_R(x) for x in r], (len(r),), dtype, "real")


def tensor(data, dtype=None, device=None, requires_grad=False):
    t = _from_data(Tensor, data, dtype)
    if t.kind == "real" and dtype is None:
        t.dtype = float32
    t.requires_grad = requires_grad
    return t


def as_tensor(data, dtype=None, device=None):
    import numpy
    if isinstance(data, Tensor):
        return data.to(dtype=dtype)
    if isinstance(data, numpy.ndarray):
        return from_numpy(data).to(dtype=dtype)
    return tensor(data, dtype=dtype)


def from_numpy(a):
    import numpy
    if not isinstance(a, numpy.ndarray):
        raise TypeError(f"expected np.ndarray (got {type(a).__name__})")
    return Tensor(a._storage, a.shape, a._strides, a._offset, a.dtype, a.kind)


class finfo:
    def __init__(self, dtype=None):
        dtype = dtype or float32
        self.eps = {float32: 2.0 ** -23, float64: 2.0 ** -52, float16: 2.0 ** -10}[dtype]
        self.max = {float32: 3.4028234663852886e38, float64: 1.7976931348623157e308, float16: 65504.0}[dtype]
        self.min = -self.max
        self.tiny = {float32: 2.0 ** -126, float64: 2.0 ** -1022, float16: 2.0 ** -14}[dtype]
        self.dtype = str(dtype)


def get_default_dtype():
    return float32


def manual_seed(seed):
    _RNG.reseed(seed)
    return _RNG


def is_grad_enabled():
    return True


class no_grad:
    def __enter__(self):
        return self

    def __exit__(self, *a):
        return False

    def __call__(self, f):
        return f


enable_grad = no_grad


# ------------------------------------------------------------------------------- functional ops
def _graph_combine(tensors, raw, name):
    """stack / cat of tensors that belong to the autograd model's graph: the result is a new graph node whose local Jacobians are the 0/1 selection
    matrices of the data movement (found by pushing integer tags through the same operation)"""
    tensors = list(tensors)
    res = raw(tensors)
    if not (is_grad_enabled() and _bi.any(isinstance(t, Tensor) and t.requires_grad for t in tensors)):
        return res
    if _bi.any(isinstance(t, (GramOnly, RowComb)) for t in tensors):
        return res
    from torch import autograd as _ag
    BIG = 10 ** 6
    tags = [Tensor._make([i * BIG + k for k in range(t.numel())], tuple(t.shape), int64, "int") for i, t in enumerate(tensors)]
    tagged = [builtins_int(x) for x in raw(tags)._flat()]
    jac = {}
    for i, t in enumerate(tensors):
        M = [[_R(1) if (tg // BIG == i and tg % BIG == k) else _R(0) for k in range(t.numel())] for tg in tagged]
        jac[(0, i)] = M
    out = _ag.op(tensors, [tuple(res.shape)], jac, saves=False, vmap_ok=True, name=name, values=[list(res._flat())], dtype=res.dtype)[0]
    return out


def cat(tensors, dim=0):
    return _graph_combine(tensors, lambda ts: _cat(ts, dim), "Cat")


concatenate = concat = cat


def stack(tensors, dim=0):
    return _graph_combine(tensors, lambda ts: _stack(ts, dim), "Stack")


def vstack(tensors):
    ts = [t.reshape(1, -1) if t.dim() <= 1 else t for t in tensors]
    return _cat(ts, 0)


def hstack(tensors):
    ts = list(tensors)
    return _cat(ts, 0 if ts[0].dim() == 1 else 1)


def count_nonzero(t, dim=None):
    if dim is not None:
        return (t != 0).sum(dim)
    return (t != 0).sum()


def column_stack(tensors):
    ts = [t.reshape(-1, 1) if t.dim() <= 1 else t for t in tensors]
    return _cat(ts, 1)


row_stack = vstack


def split(t, split_size_or_sections, dim=0):
    return t.split(split_size_or_sections, dim)


def chunk(t, chunks, dim=0):
    return t.chunk(chunks, dim)


def unbind(t, dim=0):
    return t.unbind(dim)


def tensor_split(t, indices_or_sections, dim=0):
    n = t.shape[dim]
    if isinstance(indices_or_sections, builtins_int):
        k = indices_or_sections
        sizes = [n // k + (1 if i < n % k else 0) for i in range(k)]
    else:
        cuts = [0] + [builtins_min(builtins_int(i), n) for i in indices_or_sections] + [n]
        sizes = [builtins_max(b - a, 0) for a, b in zip(cuts, cuts[1:])]
    return t.split(sizes, dim)


def masked_fill(t, mask, value):
    return t.masked_fill(mask, value)


def index_select(t, dim, index):
    return t.index_select(dim, index)


def cumsum(t, dim):
    return t.cumsum(dim)


def clamp_min(t, min):
    return t.clamp(min=min)


def clamp_max(t, max):
    return t.clamp(max=max)


def amax(t, dim=None, keepdim=False):
    return t.amax(dim, keepdim)


def amin(t, dim=None, keepdim=False):
    return t.amin(dim, keepdim)


def reciprocal(t):
    return 1 / t


def rsqrt(t):
    return 1 / t.sqrt()


def logical_and(a, b):
    return a & b


def logical_or(a, b):
    return a | b


def logical_not(a):
    return ~a


def eq(a, b):
    return a == b


def ne(a, b):
    return a != b


def lt(a, b):
    return a < b


def le(a, b):
    return a <= b


def gt(a, b):
    return a > b


def ge(a, b):
    return a >= b


def einsum(eq_, *ops):
    """general einsum for explicit '->' equations over <= 3 operands (sum over products of entries)"""
    if len(ops) == 1 and isinstance(ops[0], (list, tuple)):
        ops = tuple(ops[0])
    eq_ = eq_.replace(" ", "")
    if _bi.any(isinstance(o, (GramOnly, RowComb)) for o in ops):
        # the spellings of J J^T and w J that go through the Gram-only interface
        if "->" in eq_ and len(ops) == 2:
            (x, y), out = eq_.split("->")[0].split(","), eq_.split("->")[1]
            A, Bm = ops
            if isinstance(A, GramOnly) and Bm is A and len(x) == 2 and len(y) == 2 and x[1] == y[1] and x[0] != y[0] and len(set(x + y)) == 3:
                if out == x[0] + y[0] or out == y[0] + x[0]:
                    return A.gram()  # symmetric
            if isinstance(Bm, GramOnly) and not isinstance(A, (GramOnly, RowComb)) and len(x) == 1 and len(y) == 2 and x[0] == y[0] and out == y[1]:
                return A @ Bm
            if isinstance(A, GramOnly) and not isinstance(Bm, (GramOnly, RowComb)) and len(y) == 1 and len(x) == 2 and y[0] == x[0] and out == x[1]:
                return Bm @ A
        raise GramOnlyRead(f"einsum {eq_!r} on J")
    if "->" not in eq_ or "." in eq_:
        raise ShimUnsupported(f"einsum equation {eq_!r}")
    lhs, out = eq_.split("->")
    subs = lhs.split(",")
    if len(subs) != len(ops):
        raise RuntimeError("einsum(): more operands were provided than specified in the equation")
    dims = {}
    for sub, t in zip(subs, ops):
        if len(sub) != t.dim():
            raise RuntimeError("einsum(): the number of subscripts in the equation does not match the number of dimensions of the operand")
        for ch, n in zip(sub, t.shape):
            if dims.setdefault(ch, n) != n:
                raise RuntimeError("einsum(): operands do not broadcast with remapped shapes")
    summed = [ch for ch in dims if ch not in out]
    import itertools as _it
    flats = [(t._flat(), t.shape) for t in ops]
    def entry(fl_shape, sub, env):
        fl, shape = fl_shape
        k = 0
        for ch, n in zip(sub, shape):
            k = k * n + env[ch]
        return fl[k]
    res = []
    for oidx in _it.product(*[range(dims[ch]) for ch in out]):
        env = dict(zip(out, oidx))
        tot = None
        for sidx in _it.product(*[range(dims[ch]) for ch in summed]):
            env.update(zip(summed, sidx))
            term = None
            for fs, sub in zip(flats, subs):
                x = entry(fs, sub, env)
                term = x if term is None else term * x
            tot = term if tot is None else tot + term
        res.append(tot if tot is not None else 0)
    return Tensor._make(res, tuple(dims[ch] for ch in out), ops[0].dtype, ops[0].kind)


def diag(t, diagonal=0):
    return _core._diag(t, diagonal)


def diagonal(t):
    return t.diagonal()


def trace(t):
    return t.trace()


def sum(t, dim=None, keepdim=False, dtype=None):
    return t.sum(dim, keepdim)


def mean(t, dim=None, keepdim=False):
    return t.mean(dim, keepdim)


def prod(t, dim=None):
    return t.prod(dim)


def abs(t):
    return t.abs()


def sqrt(t):
    return t.sqrt() if isinstance(t, Tensor) else _lift(t).sqrt()


def exp(t):
    return t.exp()


def log2(t):
    return t.log2()


def floor(t):
    return t.floor()


def ceil(t):
    return t.ceil()


def exp2(t):
    return t.exp2()


def sign(t):
    return t.sign()


def square(t):
    return t * t


def neg(t):
    return -t


def add(a, b):
    return a + b


def sub(a, b):
    return a - b


def mul(a, b):
    return a * b


def div(a, b):
    return a / b


def matmul(a, b):
    return a @ b


def mm(a, b):
    return a.mm(b)


def mv(a, b):
    return a.mv(b)


def dot(a, b):
    if a.dim() != 1 or b.dim() != 1:
        raise RuntimeError("1D tensors expected, but got %dD and %dD tensors" % (a.dim(), b.dim()))
    return a @ b


def outer(a, b):
    return a.unsqueeze(1) * b.unsqueeze(0)


def t(x):
    return x.t()


def transpose(x, a, b):
    return x.transpose(a, b)


def reshape(x, shape):
    return x.reshape(shape)


def flatten(x, start_dim=0, end_dim=-1):
    return x.flatten(start_dim, end_dim)


def squeeze(x, d=None):
    return x.squeeze(d)


def unsqueeze(x, d):
    return x.unsqueeze(d)


def clone(x):
    return x.clone()


def flip(x, dims):
    return x.flip(dims)


def numel(x):
    return x.numel()


def narrow(t, dim, start, length):
    return t.narrow(dim, start, length)


def isfinite(t):
    return t.isfinite()


def isnan(t):
    return t.isnan()


def isinf(t):
    return t.isinf()


def all(t, dim=None):
    return t.all(dim)


def any(t, dim=None):
    return t.any(dim)


def nan_to_num(t, nan=0.0, posinf=None, neginf=None):
    return _core._nan_to_num(t, nan, posinf, neginf)


def where(c, a, b):
    if not isinstance(a, Tensor):
        a = tensor(a)
    if not isinstance(b, Tensor):
        b = tensor(b)
    shape = _core._bshape(_core._bshape(c.shape, a.shape), b.shape)
    cf = _core._broadcast_to(c, shape)._flat()
    af = _core._broadcast_to(a, shape)._flat()
    bf = _core._broadcast_to(b, shape)._flat()
    return Tensor._make([x if builtins_bool(_to_bool(k)) else y for k, x, y in zip(cf, af, bf)], shape, a.dtype, a.kind)


def clamp(t, min=None, max=None):
    return t.clamp(min, max)


def max(t, dim=None, keepdim=False):
    if isinstance(dim, Tensor):
        return maximum(t, dim)
    return t.max(dim, keepdim)


def min(t, dim=None, keepdim=False):
    if isinstance(dim, Tensor):
        return minimum(t, dim)
    return t.min(dim, keepdim)


def maximum(a, b):
    return a._ew(b, lambda x, y: x if builtins_bool(x >= y) else y)


def minimum(a, b):
    return a._ew(b, lambda x, y: x if builtins_bool(x <= y) else y)


def argmin(t, dim=None, keepdim=False):
    return t.argmin(dim, keepdim)


def argmax(t, dim=None, keepdim=False):
    return t.argmax(dim, keepdim)


def norm(t, p="fro", dim=None, keepdim=False):
    return t.norm(2 if p == "fro" else p, dim, keepdim)


def _sorted_perm(xs, descending):
    """stable insertion sort by forking comparisons -> permutation of indices.
    (torch.sort is not stable by default; with exact ties the order of equal elements is
    unspecified, their *values* are equal, so values-only users are unaffected.)"""
    order = []
    for i, x in enumerate(xs):
        k = len(order)
        while k > 0:
            y = xs[order[k - 1]]
            if isinstance(x, builtins_int) and isinstance(y, builtins_int):
                before = x > y if descending else x < y
            else:
                _core._no_tie(x, y)
                before = builtins_bool(_to_real(x) > _to_real(y)) if descending else builtins_bool(_to_real(x) < _to_real(y))
            if before:
                k -= 1
            else:
                break
        order.insert(k, i)
    return order


def _along(t, dim, f, out_len=None):
    """apply f(list)->(list values, list indices) along dim"""
    if t.dim() == 0:
        t = t.reshape(1)
        zero_d = True
    else:
        zero_d = False
    d = t._norm_dim(dim)
    moved = t.permute(*([i for i in range(t.dim()) if i != d] + [d]))
    n = t.shape[d]
    fl = moved._flat()
    cnt = _numel(moved.shape[:-1])
    vals, idxs = [], []
    for i in range(cnt):
        v, ix = f(fl[i * n:(i + 1) * n])
        vals.extend(v)
        idxs.extend(ix)
    k = len(vals) // cnt if cnt else (out_len if out_len is not None else n)
    shp = tuple(moved.shape[:-1]) + (k,)
    inv = list(range(t.dim() - 1))
    inv.insert(d, t.dim() - 1)
    V = Tensor._make(vals, shp, t.dtype, t.kind).permute(*inv)
    I = Tensor._make(idxs, shp, int64, "int").permute(*inv)
    V, I = V.contiguous(), I.contiguous()
    if zero_d:
        V, I = V.reshape(()), I.reshape(())
    return V, I


class _LazyIdx(Tensor):
    """index tensor of sort/topk: the permutation is only decided (by forking comparisons) when it is read"""

    def __init__(self, thunk, shape):
        self._thunk = thunk
        self._real = None
        self.shape = Size(shape)
        self._strides = _core._contig_strides(self.shape)
        self._offset = 0
        self.kind = "int"
        self.dtype = int64
        self.device = _core.CPU

    @property
    def _storage(self):
        if self._real is None:
            self._real = self._thunk()
        return self._real._storage


def _network_sort(xs, descending):
    """values of xs in sorted order as if-then-else terms (bubble network, no forking)"""
    xs = list(xs)
    n = len(xs)
    for i in range(n):
        for j in range(n - 1 - i):
            a, b = xs[j], xs[j + 1]
            c = (a >= b) if descending else (a <= b)
            xs[j], xs[j + 1] = _symx.ite(c, a, b), _symx.ite(c, b, a)
    return xs


def _axiom_sort(xs, descending):
    """sorted values as FRESH variables y constrained by: y sorted, and y is a permutation of xs
    (a disjunction over the n! arrangements - the case split is left to the SAT core instead of path forking)."""
    import itertools as _it
    n = len(xs)
    ys = [_symx.fresh("srt") for _ in range(n)]
    sp = _symx.space()
    for i in range(n - 1):
        sp.assume(((ys[i] >= ys[i + 1]) if descending else (ys[i] <= ys[i + 1])).z())
    sp.assume(_z3.Or(*[_z3.And(*[ys[i].eqz(xs[p[i]]) for i in range(n)]) for p in _it.permutations(range(n))]))
    return ys


def _symbolic_reals(xs):
    return builtins_all(isinstance(x, _R) for x in xs) and builtins_any(not x.conc for x in xs)


builtins_all, builtins_any, builtins_sum = _bi.all, _bi.any, _bi.sum


def _sort_impl(t, dim, descending, k=None):
    def f_fork(xs):
        p = _sorted_perm(xs, descending)[:k]
        return [xs[i] for i in p], p
    fl = t._flat()
    fin = [x for x in fl if isinstance(x, _R)]
    only_inf = builtins_all(isinstance(x, _R) or (isinstance(x, _Sp) and x.k in ("inf", "-inf")) for x in fl)
    if t.kind == "real" and only_inf and fin and _symbolic_reals(fin) and KERNELS.get("sort_mode") != "fork":
        def f_net(xs):
            # +-inf entries (a masked diagonal ...) have a known place; only the finite symbolic entries need the network / the axiomatised permutation
            fx = [x for x in xs if isinstance(x, _R)]
            npos = builtins_sum(1 for x in xs if isinstance(x, _Sp) and x.k == "inf")
            nneg = builtins_sum(1 for x in xs if isinstance(x, _Sp) and x.k == "-inf")
            if not fx:
                vf = []
            elif KERNELS.get("sort_mode") == "axiom" and len(fx) <= 5:
                vf = _axiom_sort(fx, descending)
            else:
                vf = _network_sort(fx, descending)
            v = ([_INF] * npos + vf + [_NINF] * nneg) if descending else ([_NINF] * nneg + vf + [_INF] * npos)
            v = v[:k]
            return v, [0] * len(v)
        V, _ = _along(t, dim, f_net, out_len=k)
        I = _LazyIdx(lambda: _along(t, dim, f_fork, out_len=k)[1], V.shape)
        return V, I
    return _along(t, dim, f_fork, out_len=k)


def sort(t, dim=-1, descending=False, stable=False):
    V, I = _sort_impl(t, dim, descending)
    return _NT("sort", V, I)


def argsort(t, dim=-1, descending=False, stable=False):
    return sort(t, dim, descending)[1]


def topk(t, k, dim=-1, largest=True, sorted=True):
    d = t._norm_dim(dim) if t.dim() else 0
    n = t.shape[d] if t.dim() else 1
    if not 0 <= k <= n:
        raise RuntimeError("selected index k out of range")
    V, I = _sort_impl(t, dim, largest, k)
    if not sorted and k > 1:
        # sorted=False: the k selected elements come back in an UNSPECIFIED order - modelled as an arbitrary permutation (free choice)
        import itertools as _it
        ps = list(_it.permutations(range(k)))
        p = ps[_symx.choice(len(ps), "topk_unsorted_order")]
        d2 = V._norm_dim(dim) if V.dim() else 0
        V = _stack([V.select(d2, j) for j in p], d2)
        I = _stack([I.select(d2, j) for j in p], d2)
    return _NT("topk", V, I)


def cdist(a, b, p=2.0, compute_mode=None):
    if a.dim() != 2 or b.dim() != 2:
        raise ShimUnsupported("batched cdist")
    if p != 2:
        raise ShimUnsupported("cdist p != 2")
    if compute_mode not in (None, "use_mm_for_euclid_dist_if_necessary", "use_mm_for_euclid_dist", "donot_use_mm_for_euclid_dist"):
        raise ValueError(f"{compute_mode} is not a valid value for compute_mode")
    if compute_mode != "donot_use_mm_for_euclid_dist":
        # torch's documented behaviour: with more than 25 rows (or always, for use_mm_for_euclid_dist) the distances are computed as
        # sqrt(|a|^2 + |b|^2 - 2 a.b), which cancels catastrophically for rows with a large common component.  The small matrices analysed here
        # stand for all sizes, so the answer is modelled as it is for the large ones: NOT the exact distances but arbitrary non-negative numbers.
        _core.log("kernel", "cdist", "mm_if_necessary", None)
        m, n = a.shape[0], b.shape[0]
        out = []
        for i in range(m):
            for j in range(n):
                v = _symx.fresh(f"cdist_mm_{i}_{j}")
                _symx.assume(v >= 0)
                out.append(v)
        return Tensor._make(out, (m, n), a.dtype)
    if isinstance(a, GramOnly):
        if b is not a:
            raise GramOnlyRead("cdist(J, other)")
        return a._cdist()
    if a.shape[1] != b.shape[1]:
        raise RuntimeError("X1 and X2 must have the same number of columns")
    m, n = a.shape[0], b.shape[0]
    af, bf = a._flat(), b._flat()
    k = a.shape[1]
    out = []
    for i in range(m):
        for j in range(n):
            if a is b and i == j:
                out.append(_R(0))
                continue
            out.append(_sum([(af[i * k + c] - bf[j * k + c]) * (af[i * k + c] - bf[j * k + c]) for c in range(k)]).sqrt())
    return Tensor._make(out, (m, n), a.dtype)


def _softmax(t, dim):
    def f(xs):
        es = [_to_real(x).exp() for x in xs]
        s = _sum(es)
        return [e / s for e in es], [0] * len(es)
    return _along(t, dim, f)[0]


def softmax(t, dim):
    return _softmax(t, dim)


def one_hot(t, num_classes=-1):
    if t.kind != "int":
        raise RuntimeError("one_hot is only applicable to index tensor.")
    fl = [builtins_int(x) for x in t._flat()]
    if num_classes == -1:
        num_classes = (builtins_max(fl) + 1) if fl else 0
    out = []
    for x in fl:
        if not 0 <= x < num_classes:
            raise RuntimeError("Class values must be smaller than num_classes.")
        out.extend(1 if c == x else 0 for c in range(num_classes))
    return Tensor._make(out, tuple(t.shape) + (num_classes,), int64, "int")


builtins_max = _bi.max


# ------------------------------------------------------------------------------- Gram-only matrices
class GramOnlyRead(Exception):
    """The code under analysis read an m x n matrix otherwise than through its Gramian / row combinations."""


class _GT:
    """J.T of an opaque matrix: only J.T.T and J.T.T @ J.T (= J @ J.T) are answered"""

    def __init__(self, owner):
        self.owner = owner

    @property
    def T(self):
        return self.owner

    mT = T

    def t(self):
        return self.owner

    @property
    def shape(self):
        return Size(reversed(self.owner.shape))

    @property
    def dtype(self):
        return self.owner.dtype

    @property
    def device(self):
        return self.owner.device

    def transpose(self, a=None, b=None):
        return self.owner

    def permute(self, *dims):
        dims = tuple(dims[0]) if len(dims) == 1 and not isinstance(dims[0], builtins_int) else dims
        if tuple(d % 2 for d in dims) == (1, 0):
            return self.owner
        if tuple(d % 2 for d in dims) == (0, 1):
            return self
        raise GramOnlyRead("J.T.permute")

    def __matmul__(self, w):
        # J.T @ w  ==  w @ J for a weight vector w
        if isinstance(w, Tensor) and w.dim() == 1 and not isinstance(w, (GramOnly, RowComb)):
            return self.owner.__rmatmul__(w)
        raise GramOnlyRead("J.T @ (something other than a weight vector)")

    def matmul(self, w):
        return self.__matmul__(w)

    def mv(self, w):
        return self.__matmul__(w)

    def __getattr__(self, name):
        raise GramOnlyRead(f"J.T.{name}")


class _SqEntries:
    """J * J (entry-wise square of an opaque matrix): only its row sums (= diag of the Gramian) and total (= trace) are answered"""

    def __init__(self, owner):
        self.owner = owner

    def sum(self, dim=None, keepdim=False):
        J = self.owner
        m = J.shape[0]
        if J._G is None:
            raise GramOnlyRead("squared entries of a distance-only matrix")
        if dim in (1, -1) and not keepdim:
            return Tensor._make([J._G[i][i] for i in range(m)], (m,), J.dtype)
        if dim in (1, -1) and keepdim:
            return Tensor._make([J._G[i][i] for i in range(m)], (m, 1), J.dtype)
        if dim is None:
            return Tensor._make([_sum([J._G[i][i] for i in range(m)])], (), J.dtype)
        raise GramOnlyRead("column sums of J * J")

    def __getattr__(self, name):
        raise GramOnlyRead(f"(J * J).{name}")


class GramOnly(Tensor):
    """Opaque m x n matrix J that answers only: J @ J.T, row norms, pairwise row distances, w @ J, shape,
    dtype, device, finiteness.  Any other read raises GramOnlyRead.  Running a weighting on it decides
    properties for ALL matrices with that Gramian (any n >= rank) and at the same time *is* the obligation
    'the weights only look at the Gramian'."""

    def __init__(self, G, n, dtype=None, dist=None):
        m = len(G) if G is not None else len(dist)
        self._G = [[_lift(x) for x in r] for r in G] if G is not None else None
        self._dist = dist  # optional: pairwise row distances given directly (distance-only domain)
        self.shape = Size((m, n))
        self._strides = (n, 1)
        self._offset = 0
        self.kind = "real"
        self.dtype = dtype or float32
        self.device = _core.CPU
        self._storage = _core.Storage([])

    def gram(self):
        m = self.shape[0]
        if self._G is None:
            raise GramOnlyRead("Gramian of a distance-only matrix")
        return Tensor._make([self._G[i][j] for i in range(m) for j in range(m)], (m, m), self.dtype)

    def _indices(self):
        raise GramOnlyRead("entries of J were read")

    def _flat(self):
        raise GramOnlyRead("entries of J were read")

    def _view(self, *a):
        raise GramOnlyRead("a view of J was taken")

    @property
    def T(self):
        return _GT(self)

    mT = T

    def t(self):
        return _GT(self)

    def transpose(self, a=None, b=None):
        return _GT(self)

    def detach(self):
        return self

    def to(self, *a, **k):
        return self

    def clone(self):
        return self

    def __matmul__(self, o):
        if isinstance(o, _GT) and o.owner is self:
            return self.gram()
        raise GramOnlyRead("J @ (something other than J.T)")

    def mm(self, o):
        return self.__matmul__(o)

    def matmul(self, o):
        return self.__matmul__(o)

    def __rmatmul__(self, w):
        if isinstance(w, Tensor) and w.dim() == 1:
            if w.shape[0] != self.shape[0]:
                raise RuntimeError(f"size mismatch, got input ({w.shape[0]}), mat ({self.shape[0]}x{self.shape[1]})")
            if w.dtype is not self.dtype:
                raise RuntimeError(f"expected m1 and m2 to have the same dtype, but got: {w.dtype} != {self.dtype}")
            return RowComb(self, w)
        if isinstance(w, _Arr) and not isinstance(w, Tensor):
            raise TypeError("unsupported operand type(s) for @: 'numpy.ndarray' and 'Tensor'")
        raise GramOnlyRead("(something other than a weight vector) @ J")

    def isfinite(self):
        return Tensor._make([_B(True)], (1, 1), bool, "bool").expand(*self.shape)

    def permute(self, *dims):
        dims = tuple(dims[0]) if len(dims) == 1 and not isinstance(dims[0], builtins_int) else dims
        if tuple(d % 2 for d in dims) == (1, 0):
            return _GT(self)
        if tuple(d % 2 for d in dims) == (0, 1):
            return self
        raise GramOnlyRead("J.permute")

    def __mul__(self, o):
        if o is self:
            return _SqEntries(self)
        raise GramOnlyRead("J * (something other than J)")

    def square(self):
        return _SqEntries(self)

    def pow(self, e):
        if e == 2:
            return _SqEntries(self)
        raise GramOnlyRead("J ** e")

    __pow__ = pow

    def norm(self, p=2, dim=None, keepdim=False):
        m = self.shape[0]
        if p in (2, "fro", None, 2.0) and dim in (1, -1) and keepdim:
            return Tensor._make([self._G[i][i].sqrt() for i in range(m)], (m, 1), self.dtype)
        if p in (2, "fro", None) and dim in (1, -1) and not keepdim:
            return Tensor._make([self._G[i][i].sqrt() for i in range(m)], (m,), self.dtype)
        if p in (2, "fro", None) and dim is None:
            return Tensor._make([_sum([self._G[i][i] for i in range(m)]).sqrt()], (), self.dtype)
        raise GramOnlyRead("norm of J along columns")

    def _cdist(self):
        m = self.shape[0]
        if self._dist is not None:
            return Tensor._make([_lift(self._dist[i][j]) for i in range(m) for j in range(m)], (m, m), self.dtype)
        out = []
        for i in range(m):
            for j in range(m):
                out.append(_R(0) if i == j else (self._G[i][i] + self._G[j][j] - self._G[i][j] - self._G[j][i]).sqrt())
        return Tensor._make(out, (m, m), self.dtype)

    def __iter__(self):
        raise GramOnlyRead("iteration over the rows of J")

    def __getitem__(self, i):
        raise GramOnlyRead("indexing J")

    def __repr__(self):
        return f"GramOnly(shape={tuple(self.shape)})"


class RowComb(Tensor):
    """w @ J for an opaque J: an opaque vector of R^n characterised by its weights."""

    def __init__(self, J, w):
        self._J, self._w = J, w
        self.shape = Size((J.shape[1],))
        self._strides = (1,)
        self._offset = 0
        self.kind = "real"
        self.dtype = J.dtype
        self.device = _core.CPU
        self._storage = _core.Storage([])

    def _indices(self):
        raise GramOnlyRead("entries of w @ J were read")

    _flat = _indices

    def _view(self, *a):
        raise GramOnlyRead("a view of w @ J was taken")

    def sqnorm(self):
        w, G = self._w._flat(), self._J._G
        m = len(w)
        return _sum([w[i] * w[j] * G[i][j] for i in range(m) for j in range(m)])

    def norm(self, p=2, dim=None, keepdim=False):
        if p in (2, "fro", None) and dim in (None, 0, -1) and not keepdim:
            return Tensor._make([self.sqnorm().sqrt()], (), self.dtype)
        raise GramOnlyRead("norm of w @ J")

    def __mul__(self, c):
        if isinstance(c, Tensor) and c.numel() == 1 and not isinstance(c, (GramOnly, RowComb)):
            return RowComb(self._J, self._w * c.reshape(()))
        if isinstance(c, (_R, builtins_int, builtins_float)):
            return RowComb(self._J, self._w * c)
        raise GramOnlyRead("elementwise product with w @ J")

    __rmul__ = __mul__

    def __truediv__(self, c):
        if isinstance(c, Tensor) and c.numel() == 1:
            return RowComb(self._J, self._w / c.reshape(()))
        if isinstance(c, (_R, builtins_int, builtins_float)):
            return RowComb(self._J, self._w / c)
        raise GramOnlyRead("elementwise division of w @ J")

    def __repr__(self):
        return f"RowComb(w={self._w!r})"


# ------------------------------------------------------------------------------- randomness
class _Rng:
    """Per-seed symbolic stream: the k-th draw after manual_seed(s) is the same symbolic value every time
    it is requested with the same shape of request ("for all seeds" == "for all stream contents")."""

    def __init__(self):
        self.seed = None
        self.k = 0
        self.generation = 0

    def reseed(self, seed):
        self.seed = seed
        self.k = 0

    def _name(self, what):
        self.k += 1
        s = f"seed{self.seed}" if self.seed is not None else f"unseeded{self.generation}"
        return f"{what}_{s}_{self.k}"


_RNG = _Rng()


def _draw_real(what, lo=None, hi=None):
    nm = _RNG._name(what)
    sp = _symx.space()
    key = ("rng", nm)
    v = sp.memo.get(key)
    if v is None:
        v = _z3.Real(nm)
        sp.memo[key] = v
        if lo is not None:
            sp.assume(v >= lo)
        if hi is not None:
            sp.assume(v < hi)
    return _R(v)


def rand(*shape, dtype=None, device=None, **kw):
    shape = _shape_args(shape)
    return Tensor._make([_draw_real("U", 0, 1) for _ in range(_numel(shape))], shape, dtype or float32, "real")


def randn(*shape, dtype=None, device=None, **kw):
    shape = _shape_args(shape)
    return Tensor._make([_draw_real("N") for _ in range(_numel(shape))], shape, dtype or float32, "real")


def rand_like(t, **kw):
    return rand(t.shape, dtype=t.dtype)


def randn_like(t, **kw):
    return randn(t.shape, dtype=t.dtype)


def randperm(n, **kw):
    nm = _RNG._name("perm")
    sp = _symx.space()
    key = ("rng", nm, n)
    p = sp.memo.get(key)
    if p is None:
        rest = list(range(n))
        p = []
        while rest:
            p.append(rest.pop(sp.choice(len(rest), "randperm")))
        sp.memo[key] = p
    return Tensor._make(list(p), (n,), int64, "int")


# ------------------------------------------------------------------------------- kernels (contract stubs)
KERNELS = {}


def _kernel(name):
    return KERNELS.get(name)


def svd(t, some=True, compute_uv=True):
    import torch.linalg as la
    h = _kernel("svd_legacy") or la._svd_contract
    U, S, Vh = h(t, legacy=True)
    return U, S, Vh


# ------------------------------------------------------------------------------- vmap
_VMAP_DEPTH = [0]
_VMAP_DEFER = []


def vmap(func, in_dims=0, out_dims=0, randomness="error", *, chunk_size=None):
    if in_dims != 0 or out_dims != 0:
        raise ShimUnsupported("vmap in_dims/out_dims")
    if chunk_size is not None and chunk_size < 1:
        raise ValueError("vmap: chunk_size should be None or greater than 0.")

    def run(*args):
        def batch_of(a):
            if isinstance(a, Tensor):
                if a.dim() == 0:
                    raise ValueError("vmap: Got in_dim=0 for an input but the input is of type Tensor with 0 dims")
                return a.shape[0]
            if isinstance(a, (list, tuple)):
                bs = {batch_of(x) for x in a}
                if len(bs) > 1:
                    raise ValueError("vmap: Expected all tensors to have the same size in the mapped dimension")
                return bs.pop() if bs else None
            raise ShimUnsupported("vmap over non-tensor pytrees")

        def pick(a, i):
            if isinstance(a, Tensor):
                return a[i]
            return type(a)(pick(x, i) for x in a)

        Bn = batch_of(args)
        if Bn is None:
            raise ValueError("vmap: no tensor inputs")
        cs = chunk_size or Bn
        outs = []
        for c0 in range(0, Bn, cs):
            rows = range(c0, builtins_min(c0 + cs, Bn))
            _log("vmap_enter", len(rows))
            _VMAP_DEPTH[0] += 1
            try:
                for i in rows:
                    outs.append(func(*[pick(a, i) for a in args]))
            finally:
                _VMAP_DEPTH[0] -= 1
                if _VMAP_DEPTH[0] == 0:
                    for op in _VMAP_DEFER:
                        op.freed = True
                    _VMAP_DEFER.clear()
                _log("vmap_exit")
        if Bn == 0:
            raise ShimUnsupported("vmap over an empty batch")
        if isinstance(outs[0], Tensor):
            return _stack(outs, 0)
        if isinstance(outs[0], (tuple, list)):
            return type(outs[0])(_stack([o[k] for o in outs], 0) for k in range(len(outs[0])))
        raise ShimUnsupported("vmap output type")

    return run


builtins_min = _bi.min

from torch import nn  # noqa: E402
from torch import linalg  # noqa: E402
from torch import autograd  # noqa: E402
from torch.nn import functional as _F  # noqa: E402


class _Func:
    vmap = staticmethod(vmap)


func = _Func()


inf = __import__("math").inf  # (`float` is the dtype in this module)
nan = __import__("math").nan


def __getattr__(name):
    if name.startswith("__"):
        raise AttributeError(name)
    raise ShimUnsupported(f"torch.{name} is not modelled")
