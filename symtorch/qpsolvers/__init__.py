"""qpsolvers model: solve_qp is a contract stub.

Default handler: returns fresh v (and multipliers mu) constrained by the KKT conditions of
    min 1/2 v^T P v + q^T v   s.t.  G v <= h
(P v + q + G^T mu = 0, mu >= 0, G v <= h, mu^T (G v - h) = 0).  The handler can be replaced by a harness
(torch.KERNELS['solve_qp']) e.g. to return unconstrained fresh values when only the wiring is examined."""
import symx
from symx import ShimUnsupported
from _core import log, _sum
import numpy as np


def _rows(a):
    m, n = a.shape
    fl = a._flat()
    return [[fl[i * n + j] for j in range(n)] for i in range(m)]


def solve_qp(P, q, G=None, h=None, A=None, b=None, lb=None, ub=None, solver=None, initvals=None, verbose=False, **kw):
    import torch
    for name, a in (("P", P), ("q", q), ("G", G), ("h", h)):
        if a is not None and not isinstance(a, np.ndarray):
            raise TypeError(f"solve_qp: {name} must be a numpy array, got {type(a).__name__}")
    if A is not None or b is not None or lb is not None or ub is not None:
        raise ShimUnsupported("solve_qp with equality constraints / bounds")
    if solver is None:
        raise ValueError("solve_qp: no solver specified")
    hd = torch.KERNELS.get("solve_qp")
    if hd is not None:
        r = hd(P, q, G, h, solver)
        log("kernel", "solve_qp", (P, q, G, h, solver), r)
        return r
    n = P.shape[0]
    # the kernel is a deterministic function: syntactically equal arguments get the same answer
    mk = ("solve_qp", tuple(symx._key(x.n) + "/" + symx._key(x.d) for a in (P, q, G, h) if a is not None for x in a._flat()), str(solver))
    cached = symx.space().memo.get(mk)
    if cached is not None:
        r = np.ndarray._make(list(cached), (n,), np.float64)
        log("kernel", "solve_qp", (P, q, G, h, solver), r)
        return r
    Pm = _rows(P)
    qv = q._flat()
    cand_fn = torch.KERNELS.get("qp_candidates")
    if cand_fn is not None and G is not None:
        # candidate formulation: a vector proposed by the harness is returned iff the solver PROVES that it satisfies
        # the KKT conditions for the arguments actually passed (multipliers are determined when G = -I).
        Gm0, hv0 = _rows(G), h._flat()
        isnegI = all(x.conc and x.frac() == (-1 if i == j else 0) for i, r in enumerate(Gm0) for j, x in enumerate(r)) and len(Gm0) == n
        if isnegI:
            import z3
            for cand in cand_fn():
                if len(cand) != n:
                    continue
                mu_c = [_sum([Pm[i][j] * cand[j] for j in range(n)]) + qv[i] for i in range(n)]
                slack = [-cand[i] - hv0[i] for i in range(n)]  # (G v - h)_i <= 0
                f = z3.And(*[(mu_c[i] >= 0).z() for i in range(n)], *[(slack[i] <= 0).z() for i in range(n)],
                           *[(mu_c[i] * slack[i]).eqz(0) for i in range(n)])
                if symx.space().proved(f, timeout_ms=5000):
                    symx.space().memo[mk] = list(cand)
                    r = np.ndarray._make(list(cand), (n,), np.float64)
                    log("kernel", "solve_qp", (P, q, G, h, solver), r, "candidate")
                    return r
    Gm = _rows(G) if G is not None else []
    hv = h._flat() if h is not None else []
    v = [symx.fresh(f"qp_v{i}") for i in range(n)]
    mu = [symx.fresh(f"qp_mu{i}") for i in range(len(Gm))]
    for i in range(n):
        lhs = _sum([Pm[i][j] * v[j] for j in range(n)]) + qv[i] + _sum([Gm[k][i] * mu[k] for k in range(len(Gm))])
        symx.assume(lhs.eqz(0))
    for k in range(len(Gm)):
        slack = _sum([Gm[k][j] * v[j] for j in range(n)]) - hv[k]
        symx.assume((mu[k] >= 0).z())
        symx.assume((slack <= 0).z())
        symx.assume((mu[k] * slack).eqz(0))
    symx.space().memo[mk] = list(v)
    r = np.ndarray._make(v, (n,), np.float64)
    log("kernel", "solve_qp", (P, q, G, h, solver), r)
    return r


def __getattr__(name):
    if name.startswith("__"):
        raise AttributeError(name)
    raise ShimUnsupported(f"qpsolvers.{name} is not modelled")
