"""symx - path-forking symbolic executor over z3 (exact reals, fraction-free).

The harness function is re-executed once per path (DFS over a decision trail, no state copying).
`SymBool.__bool__` is the only solver-guided forking point; `choice(n)` forks without a solver call.
Every query uses a *fresh* non-incremental solver (z3's incremental core goes `unknown` on trivial
non-linear queries; nlsat through SolverFor("QF_NRA") decides them in milliseconds).
"""
from __future__ import annotations

import math
import itertools
import os
import time
from fractions import Fraction

import z3

__all__ = [
    "R", "B", "Sp", "NAN", "INF", "NINF", "Space", "explore", "space", "fresh", "assume", "choice",
    "PathAbort", "Inconclusive", "ShimUnsupported", "lift", "zterm", "mval", "is_conc", "ite", "Ob", "named",
]


class PathAbort(BaseException):
    """The current path is infeasible (or was cut by a stated assumption)."""


class Inconclusive(BaseException):
    """The engine cannot decide (solver unknown, unsupported environment call)."""


class ShimUnsupported(Inconclusive):
    """The code under analysis used an environment entry point that is not modelled."""


# ---------------------------------------------------------------------------------------------
# low level helpers on "terms": a term is an int/Fraction constant or a z3 ArithRef
# ---------------------------------------------------------------------------------------------
def _isc(x):
    return isinstance(x, (int, Fraction))


def _zc(x):
    if _isc(x):
        if isinstance(x, int):
            return z3.RealVal(x)
        return z3.RealVal(str(x))
    return x


def _mul(a, b):
    if _isc(a) and _isc(b):
        return Fraction(a) * Fraction(b)
    if _isc(a):
        if a == 0:
            return 0
        if a == 1:
            return b
    if _isc(b):
        if b == 0:
            return 0
        if b == 1:
            return a
    return _zc(a) * _zc(b)


def _add(a, b):
    if _isc(a) and _isc(b):
        return Fraction(a) + Fraction(b)
    if _isc(a) and a == 0:
        return b
    if _isc(b) and b == 0:
        return a
    return _zc(a) + _zc(b)


def _neg(a):
    if _isc(a):
        return -Fraction(a)
    return -a


_SPLIT_CACHE = {}


def _split_coef(t):
    """t = c * core with c a rational constant: (c, core); core None for a pure constant.  For a polynomial the numeric content (gcd of its
    integer coefficients, sign of the first one) is pulled out, so that D and 3 D are recognised as the same core"""
    if _isc(t):
        return Fraction(t), None
    if z3.is_rational_value(t):
        return Fraction(t.as_fraction()), None
    k = t.get_id()
    hit = _SPLIT_CACHE.get(k)
    if hit is not None:
        return hit[1], hit[2]
    res = (Fraction(1), t)
    try:
        if _ast_size(t, 600) <= 600:
            g = z3.simplify(t, som=True)
            terms = g.children() if (z3.is_app(g) and g.decl().kind() == z3.Z3_OP_ADD) else [g]
            coefs = []
            for m in terms:
                if z3.is_rational_value(m):
                    coefs.append(Fraction(m.as_fraction()))
                elif z3.is_app(m) and m.decl().kind() == z3.Z3_OP_MUL and z3.is_rational_value(m.arg(0)):
                    coefs.append(Fraction(m.arg(0).as_fraction()))
                else:
                    coefs.append(Fraction(1))
            if coefs and all(c.denominator == 1 and c != 0 for c in coefs):
                c = Fraction(math.gcd(*[abs(x.numerator) for x in coefs]))
                if coefs[0] < 0:
                    c = -c
                if c != 1:
                    res = (c, z3.simplify(g * z3.RealVal(str(1 / c)), som=True))
                else:
                    res = (Fraction(1), g)
    except Exception:  # noqa
        res = (Fraction(1), t)
    _SPLIT_CACHE[k] = (t, res[0], res[1])
    return res


def _same(a, b):
    if _isc(a) and _isc(b):
        return a == b
    if _isc(a) or _isc(b):
        return False
    return a.eq(b)


def _float_to_fraction(x: float) -> Fraction:
    """Python float constants of the code under analysis are read as exact reals.  A float that is
    within 4 ulp of a rational with denominator <= 10**6 (1/3, 0.0001, 1e-12 ...) is read as that
    rational: this is part of the stated real-number abstraction."""
    if x != x or x in (float("inf"), float("-inf")):
        raise ValueError("special float")
    f = Fraction(x)
    if f.denominator == 1:
        return f
    for lim in (10 ** 3, 10 ** 6, 10 ** 12, 10 ** 15):
        g = f.limit_denominator(lim)
        if g != 0 and abs(g - f) <= abs(f) * Fraction(1, 2 ** 50):
            return g
    return f


# ---------------------------------------------------------------------------------------------
# symbolic booleans
# ---------------------------------------------------------------------------------------------
class B:
    """Symbolic boolean.  bool(B) forks the path."""

    __slots__ = ("v",)

    def __init__(self, v):
        if isinstance(v, B):
            v = v.v
        self.v = v

    @property
    def conc(self):
        return isinstance(self.v, bool)

    def __bool__(self):
        if isinstance(self.v, bool):
            return self.v
        return SPACE.branch(self.v)

    def z(self):
        return z3.BoolVal(self.v) if isinstance(self.v, bool) else self.v

    def __and__(self, o):
        o = B.lift(o)
        if self.conc:
            return o if self.v else B(False)
        if o.conc:
            return self if o.v else B(False)
        return B(z3.And(self.v, o.v))

    __rand__ = __and__

    def __or__(self, o):
        o = B.lift(o)
        if self.conc:
            return B(True) if self.v else o
        if o.conc:
            return B(True) if o.v else self
        return B(z3.Or(self.v, o.v))

    __ror__ = __or__

    def __invert__(self):
        if self.conc:
            return B(not self.v)
        return B(z3.Not(self.v))

    def __xor__(self, o):
        o = B.lift(o)
        return (self & ~o) | (~self & o)

    @staticmethod
    def lift(x):
        if isinstance(x, B):
            return x
        if isinstance(x, bool):
            return B(x)
        if isinstance(x, int):
            return B(bool(x))
        raise TypeError(f"cannot lift {type(x)} to B")

    def to_real(self):
        if self.conc:
            return R(1 if self.v else 0)
        # fork: keeps the arithmetic polynomial
        return R(1) if bool(self) else R(0)

    def __repr__(self):
        return f"B({self.v})"

    __hash__ = None


# ---------------------------------------------------------------------------------------------
# IEEE specials (concretely tracked)
# ---------------------------------------------------------------------------------------------
def _foreign(o):
    return not isinstance(o, (R, Sp, B, int, float, Fraction))


class Sp:
    __slots__ = ("k",)

    def __init__(self, k):
        assert k in ("nan", "inf", "-inf")
        self.k = k

    def __repr__(self):
        return self.k

    def __neg__(self):
        return Sp({"nan": "nan", "inf": "-inf", "-inf": "inf"}[self.k])

    def _sgn(self):
        return {"inf": 1, "-inf": -1}.get(self.k, 0)

    def __add__(self, o):
        if _foreign(o):
            return NotImplemented
        if self.k == "nan":
            return self
        if isinstance(o, Sp):
            if o.k == "nan" or o.k != self.k:
                return NAN
            return self
        return self

    __radd__ = __add__

    def __sub__(self, o):
        if _foreign(o):
            return NotImplemented
        return self + (-o if isinstance(o, Sp) else 0)

    def __rsub__(self, o):
        if _foreign(o):
            return NotImplemented
        return (-self) + o

    def __mul__(self, o):
        if _foreign(o):
            return NotImplemented
        if self.k == "nan":
            return self
        if isinstance(o, Sp):
            if o.k == "nan":
                return NAN
            return Sp("inf" if self._sgn() * o._sgn() > 0 else "-inf")
        o = lift(o)
        if bool(o > 0):
            return self
        if bool(o < 0):
            return -self
        return NAN

    __rmul__ = __mul__

    def __truediv__(self, o):
        if _foreign(o):
            return NotImplemented
        if self.k == "nan":
            return self
        if isinstance(o, Sp):
            return NAN
        o = lift(o)
        if bool(o >= 0):  # inf / +0 = inf
            return self
        return -self

    def __rtruediv__(self, o):
        if _foreign(o):
            return NotImplemented
        if self.k == "nan":
            return self
        return R(0)

    def _cmp(self, o, op):
        if _foreign(o):
            return NotImplemented
        if self.k == "nan" or (isinstance(o, Sp) and o.k == "nan"):
            return B(op == "ne")
        a = self._sgn() * 2
        b = o._sgn() * 2 if isinstance(o, Sp) else 0  # finite values sit strictly between
        return B({"lt": a < b, "le": a <= b, "gt": a > b, "ge": a >= b, "eq": a == b and isinstance(o, Sp),
                  "ne": not (a == b and isinstance(o, Sp))}[op])

    def __lt__(self, o):
        return self._cmp(o, "lt")

    def __le__(self, o):
        return self._cmp(o, "le")

    def __gt__(self, o):
        return self._cmp(o, "gt")

    def __ge__(self, o):
        return self._cmp(o, "ge")

    def __eq__(self, o):
        return self._cmp(o, "eq")

    def __ne__(self, o):
        return self._cmp(o, "ne")

    __hash__ = None

    def abs(self):
        return NAN if self.k == "nan" else INF

    # formula-level comparisons (used by harness obligations): an IEEE special is never equal / ordered w.r.t. a finite term
    def eqz(self, o):
        return z3.BoolVal(isinstance(o, Sp) and o.k == self.k and self.k != "nan")

    def lez(self, o):
        return z3.BoolVal(False)

    ltz = lez

    def z(self):
        raise Inconclusive(f"IEEE special {self.k} has no solver term")

    def sqrt(self):
        return self if self.k in ("nan", "inf") else NAN

    def isfinite(self):
        return B(False)


NAN, INF, NINF = Sp("nan"), Sp("inf"), Sp("-inf")


# ---------------------------------------------------------------------------------------------
# symbolic reals: value = n / d, the path condition always entails d > 0
# ---------------------------------------------------------------------------------------------
class R:
    __slots__ = ("_n", "_d", "root", "_lz")
    # root: an R whose square is this value (perfect-square tracking), or None
    # _lz : for a LAZY square root, the radicand x (an R, x >= 0 on this path): the fresh variable r with r >= 0, r*r == x is only
    #       introduced when the value is used arithmetically; comparisons against non-negative constants / other lazy roots are
    #       answered on the radicands (sqrt(x) < c  <=>  x < c*c), which keeps branch conditions free of auxiliary variables

    def __init__(self, n, d=1, root=None):
        self.root = root
        self._lz = None
        if isinstance(n, R):
            n, d = n.n, n.d
        elif isinstance(n, bool):
            n = int(n)
        elif isinstance(n, float):
            n = _float_to_fraction(n)
        self._n = n
        self._d = d

    @classmethod
    def lazy_sqrt(cls, x):
        r = cls.__new__(cls)
        r.root = None
        r._lz = x
        r._n = None
        r._d = None
        return r

    def _materialise(self):
        x = self._lz
        nd = _mul(x.n, x.d)
        key = ("sqrt", _key(nd))
        v = SPACE.memo.get(key)
        if v is None:
            v = SPACE.fresh_real("sq")
            SPACE.assume(z3.And(v >= 0, v * v == _zc(nd)))
            SPACE.memo[key] = v
        self._n, self._d = v, x.d

    @property
    def n(self):
        if self._n is None:
            self._materialise()
        return self._n

    @property
    def d(self):
        if self._n is None:
            self._materialise()
        return self._d

    # --- helpers
    @property
    def conc(self):
        if self._n is None:
            return False
        return _isc(self._n) and _isc(self._d)

    def frac(self) -> Fraction:
        assert self.conc
        return Fraction(self.n) / Fraction(self.d)

    def z(self):
        """z3 term for the value (uses division; only for display / model evaluation)."""
        if _isc(self.d) and self.d == 1:
            return _zc(self.n)
        return _zc(self.n) / _zc(self.d)

    def eqz(self, o):
        """z3 formula `self == o` (cross-multiplied, division free)."""
        o = lift(o)
        if isinstance(o, Sp):
            return z3.BoolVal(False)
        l, r = _mul(self.n, o.d), _mul(o.n, self.d)
        if _isc(l) and _isc(r):
            return z3.BoolVal(l == r)
        return _zc(l) == _zc(r)

    def lez(self, o):
        o = lift(o)
        l, r = _mul(self.n, o.d), _mul(o.n, self.d)
        if _isc(l) and _isc(r):
            return z3.BoolVal(l <= r)
        return _zc(l) <= _zc(r)

    def ltz(self, o):
        o = lift(o)
        l, r = _mul(self.n, o.d), _mul(o.n, self.d)
        if _isc(l) and _isc(r):
            return z3.BoolVal(l < r)
        return _zc(l) < _zc(r)

    # --- arithmetic
    def __add__(self, o):
        if _foreign(o):
            return NotImplemented
        if isinstance(o, Sp):
            return o + self
        o = lift(o)
        if _same(self.d, o.d):
            return R(_add(self.n, o.n), self.d)
        # denominators that differ by a numeric factor only (D and 3 D): keep the common polynomial factor once - without this every
        # convex combination (1 - g) x + g y squares the denominator and the polynomials handed to the solver double in degree for nothing
        (c1, k1), (c2, k2) = _split_coef(self.d), _split_coef(o.d)
        if (k1 is None and k2 is None) or (k1 is not None and k2 is not None and k1.eq(k2)):
            g = math.gcd(c1.numerator, c2.numerator) if c1.denominator == 1 and c2.denominator == 1 and c1 > 0 and c2 > 0 else 1
            m1, m2 = c2 / g, c1 / g
            d = _mul(c1 * m1, k1) if k1 is not None else c1 * m1
            return R(_add(_mul(self.n, m1), _mul(o.n, m2)), d)
        return R(_add(_mul(self.n, o.d), _mul(o.n, self.d)), _mul(self.d, o.d))

    __radd__ = __add__

    def __neg__(self):
        return R(_neg(self.n), self.d)

    def __pos__(self):
        return self

    def __sub__(self, o):
        if _foreign(o):
            return NotImplemented
        if isinstance(o, Sp):
            return (-o) + self
        return self + (-lift(o))

    def __rsub__(self, o):
        if _foreign(o):
            return NotImplemented
        return lift(o) - self

    def __mul__(self, o):
        if _foreign(o):
            return NotImplemented
        if isinstance(o, Sp):
            return o * self
        o = lift(o)
        if o is self and self._lz is not None:
            return self._lz  # sqrt(x) * sqrt(x) = x
        root = None
        if o is self or (_same(self.n, o.n) and _same(self.d, o.d)):
            root = self
        elif self.root is not None and o.root is not None:
            root = self.root * o.root
        elif self.root is not None and o.conc and o.frac() >= 0:
            root = _conc_sqrt_mul(self.root, o.frac())
        elif o.root is not None and self.conc and self.frac() >= 0:
            root = _conc_sqrt_mul(o.root, self.frac())
        return R(_mul(self.n, o.n), _mul(self.d, o.d), root)

    __rmul__ = __mul__

    def __truediv__(self, o):
        if _foreign(o):
            return NotImplemented
        if isinstance(o, Sp):
            return o.__rtruediv__(self)
        o = lift(o)
        if _isc(o.n):
            if o.n == 0:
                return self._div0()
            if o.n > 0:
                root = _conc_sqrt_mul(self.root, 1 / o.frac()) if (self.root is not None and o.conc) else None
                return R(_mul(self.n, o.d), _mul(self.d, o.n), root)
            return R(_mul(_neg(self.n), o.d), _mul(self.d, -o.n))
        if B(_zc(o.n) > 0):
            root = None
            if self.root is not None and o.root is not None:
                root = self.root / o.root
            return R(_mul(self.n, o.d), _mul(self.d, o.n), root)
        if B(_zc(o.n) < 0):
            return R(_mul(_neg(self.n), o.d), _mul(self.d, _neg(o.n)))
        return self._div0()

    def _div0(self):
        if bool(self > 0):
            return INF
        if bool(self < 0):
            return NINF
        return NAN

    def __rtruediv__(self, o):
        if _foreign(o):
            return NotImplemented
        return lift(o) / self

    def __pow__(self, p):
        if isinstance(p, R) and p.conc:
            p = p.frac()
        if p == 2:
            return self * self
        if p == 1:
            return self
        if p == 0:
            return R(1)
        if p == Fraction(1, 2) or p == 0.5:
            return self.sqrt()
        if isinstance(p, (int, Fraction)) and int(p) == p and p > 0:
            r = self
            for _ in range(int(p) - 1):
                r = r * self
            return r
        if p == -1:
            return R(1) / self
        raise ShimUnsupported(f"power {p}")

    def _cmp(self, o, op):
        if _foreign(o):
            return NotImplemented
        if isinstance(o, Sp):
            return {"lt": o.__gt__, "le": o.__ge__, "gt": o.__lt__, "ge": o.__le__, "eq": o.__eq__,
                    "ne": o.__ne__}[op](self)
        o = lift(o)
        if self._lz is not None and self._n is None:
            if o._lz is not None and o._n is None:
                return self._lz._cmp(o._lz, op)
            if o.conc:
                c = o.frac()
                if c < 0:
                    return B(op in ("gt", "ge", "ne"))
                return self._lz._cmp(R(c * c), op)
            return _sqrt_cmp(self._lz, o, op)
        elif o._lz is not None and o._n is None:
            if self.conc:
                c = self.frac()
                if c < 0:
                    return B(op in ("lt", "le", "ne"))
                return R(c * c)._cmp(o._lz, op)
            return _sqrt_cmp(o._lz, self, {"lt": "gt", "le": "ge", "gt": "lt", "ge": "le", "eq": "eq", "ne": "ne"}[op])
        l, r = _mul(self.n, o.d), _mul(o.n, self.d)
        if _isc(l) and _isc(r):
            l, r = Fraction(l), Fraction(r)
            return B({"lt": l < r, "le": l <= r, "gt": l > r, "ge": l >= r, "eq": l == r, "ne": l != r}[op])
        l, r = _zc(l), _zc(r)
        return B({"lt": l < r, "le": l <= r, "gt": l > r, "ge": l >= r, "eq": l == r, "ne": l != r}[op])

    def __lt__(self, o):
        return self._cmp(o, "lt")

    def __le__(self, o):
        return self._cmp(o, "le")

    def __gt__(self, o):
        return self._cmp(o, "gt")

    def __ge__(self, o):
        return self._cmp(o, "ge")

    def __eq__(self, o):
        return self._cmp(o, "eq")

    def __ne__(self, o):
        return self._cmp(o, "ne")

    __hash__ = None

    def __bool__(self):
        return bool(self != 0)

    def __float__(self):
        if self.conc:
            return float(self.frac())
        raise ShimUnsupported("float() of a symbolic real")

    def __int__(self):
        if self.conc and self.frac().denominator == 1:
            return int(self.frac())
        raise ShimUnsupported("int() of a symbolic real")

    def __round__(self, *a):
        raise ShimUnsupported("round() of a symbolic real")

    def __format__(self, spec):
        return repr(self)

    # --- transcendental-ish, via fresh existentials
    def sqrt(self):
        if self.root is not None and not self.conc:
            return self.root.abs()
        if self.conc:
            f = self.frac()
            if f < 0:
                return NAN
            import math

            a, b = math.isqrt(f.numerator), math.isqrt(f.denominator)
            if a * a == f.numerator and b * b == f.denominator:
                return R(Fraction(a, b))
        else:
            if bool(self < 0):
                return NAN
        # harness-provided candidates (checked by the solver, hence sound): sqrt(x) = c if x == c*c and c >= 0
        for c in SPACE.sqrt_candidates:
            if SPACE.proved(z3.And(self.eqz(c * c), (c >= 0).z()), timeout_ms=2000):
                return c
        # sqrt(n/d) = sqrt(n*d)/d, introduced lazily
        return R.lazy_sqrt(self)

    def exp(self):
        if self.conc and self.frac() == 0:
            return R(1)
        key = ("exp", _key(self.n), _key(self.d))
        r = SPACE.memo.get(key)
        if r is None:
            r = SPACE.fresh_real("ex")
            SPACE.assume(r > 0)
            SPACE.memo[key] = r
        return R(r)

    # ---- transcendental / rounding functions as memoised uninterpreted functions with the contracts needed for scale computations
    def _uf(self, name, contract):
        key = (name, _key(self.n), _key(self.d))
        r = SPACE.memo.get(key)
        if r is None:
            r = SPACE.fresh_real(name)
            SPACE.memo[key] = r
            SPACE.memo[("prov", r.get_id())] = (name, self)
            contract(R(r))
        return R(r)

    def log2(self):
        """defined for self > 0 (callers branch on the sign first): monotone contract against 0 only: log2 x >= 0 <=> x >= 1"""
        if self.conc and self.frac() > 0:
            f, k = self.frac(), 0
            while f > 1 and f.denominator == 1 and f.numerator % 2 == 0:
                f, k = f / 2, k + 1
            while f < 1 and f.numerator == 1 and f.denominator % 2 == 0:
                f, k = f * 2, k - 1
            if f == 1:
                return R(k)
        x = self
        return self._uf("log2", lambda r: (SPACE.assume(z3.Implies((x >= 1).z(), (r >= 0).z())), SPACE.assume(z3.Implies((x < 1).z(), (r < 0).z()))))

    def floor(self):
        if self.conc:
            return R(self.frac().__floor__())
        x = self
        return self._uf("floor", lambda r: (SPACE.assume(r <= x), SPACE.assume(x < r + 1)))

    def ceil(self):
        if self.conc:
            return R(self.frac().__ceil__())
        x = self
        return self._uf("ceil", lambda r: (SPACE.assume(r >= x), SPACE.assume(x > r - 1)))

    def exp2(self):
        if self.conc and self.frac().denominator == 1 and abs(self.frac()) <= 4096:
            k = int(self.frac())
            return R(Fraction(2) ** k)
        x = self
        def contract(r):
            SPACE.assume(r > 0)
            # 2 ** floor(log2 y) is the largest power of two <= y:  r <= y < 2 r
            prov = None if x.conc else SPACE.memo.get(("prov", x.n.get_id())) if _isc(x.d) and x.d == 1 and not _isc(x.n) else None
            if prov is not None and prov[0] == "floor":
                inner = prov[1]
                p2 = None if inner.conc or _isc(inner.n) else SPACE.memo.get(("prov", inner.n.get_id())) if _isc(inner.d) and inner.d == 1 else None
                if p2 is not None and p2[0] == "log2":
                    y = p2[1]
                    SPACE.assume(r <= y)
                    SPACE.assume(y < 2 * r)
        return self._uf("exp2", contract)

    def abs(self):
        if self.conc:
            return R(abs(self.frac()))
        if bool(self >= 0):
            return self
        return -self

    def isfinite(self):
        return B(True)

    def __repr__(self):
        if self.conc:
            return f"R({self.frac()})"
        return f"R({self.n}/{self.d})" if not (_isc(self.d) and self.d == 1) else f"R({self.n})"


def _sqrt_cmp(x, y, op):
    """sqrt(x) <op> y for a symbolic y, stated on the radicand (no auxiliary variable)."""
    y2 = y * y
    if op == "gt":
        return (y < 0) | (x > y2)
    if op == "ge":
        return (y <= 0) | (x >= y2)
    if op == "lt":
        return (y > 0) & (x < y2)
    if op == "le":
        return (y >= 0) & (x <= y2)
    if op == "eq":
        return (y >= 0) & (x == y2)
    return ~((y >= 0) & (x == y2))


def _conc_sqrt_mul(root, f):
    """root * sqrt(f) when f is a perfect rational square, else None"""
    import math
    f = Fraction(f)
    a, b = math.isqrt(f.numerator), math.isqrt(f.denominator)
    if a * a == f.numerator and b * b == f.denominator:
        return root * Fraction(a, b)
    return None


def _key(t):
    if _isc(t):
        return str(Fraction(t))
    return t.sexpr()


def lift(x):
    if isinstance(x, (R, Sp)):
        return x
    if isinstance(x, B):
        return x.to_real()
    if isinstance(x, float):
        if x != x:
            return NAN
        if x == float("inf"):
            return INF
        if x == float("-inf"):
            return NINF
    if isinstance(x, (int, float, Fraction)):
        return R(x)
    if hasattr(x, "_as_scalar"):  # 0-d arrays
        return lift(x._as_scalar())
    raise TypeError(f"cannot lift {type(x)} to a symbolic real")


def ite(c, a, b):
    """symbolic if-then-else on reals without forking (c: B)."""
    c = B.lift(c)
    if c.conc:
        return a if c.v else b
    a, b = lift(a), lift(b)
    if isinstance(a, Sp) or isinstance(b, Sp):
        return a if bool(c) else b
    if _same(a.d, b.d):
        return R(z3.If(c.v, _zc(a.n), _zc(b.n)), a.d)
    return R(z3.If(c.v, _zc(_mul(a.n, b.d)), _zc(_mul(b.n, a.d))), _mul(a.d, b.d))


def is_conc(x):
    return isinstance(x, Sp) or (isinstance(x, R) and x.conc) or (isinstance(x, B) and x.conc) or isinstance(x, (int, bool))


def zterm(x):
    x = lift(x)
    return x.z()


# ---------------------------------------------------------------------------------------------
# the search space
# ---------------------------------------------------------------------------------------------
_LIN_CACHE = {}  # ast id -> (ast, bool); the AST is kept alive so that its id cannot be reused by z3


def _is_linear(f):
    """syntactic linearity of a z3 formula (no product of two non-numerals, no division by a non-numeral)."""
    k = f.get_id()
    hit = _LIN_CACHE.get(k)
    if hit is not None:
        return hit[1]
    r = True
    if z3.is_app(f):
        kind = f.decl().kind()
        ch = f.children()
        if kind == z3.Z3_OP_MUL:
            if sum(0 if z3.is_rational_value(c) else 1 for c in ch) > 1:
                r = False
        elif kind in (z3.Z3_OP_DIV, z3.Z3_OP_POWER):
            r = False if kind == z3.Z3_OP_POWER else z3.is_rational_value(ch[1])
        if r:
            r = all(_is_linear(c) for c in ch)
    _LIN_CACHE[k] = (f, r)
    return r


_ABS_CACHE = {}   # ast id -> (ast, abstracted ast or None)
_ABS_TABLE = {}   # canonical monomial -> z3 variable
_ABS_FACTS = {}   # variable name -> sign fact (squares are non-negative)


def _ast_size(f, limit):
    n, stack, seen = 0, [f], set()
    while stack:
        e = stack.pop()
        i = e.get_id()
        if i in seen:
            continue
        seen.add(i)
        n += 1
        if n > limit:
            return n
        stack.extend(e.children())
    return n


def _abstract(f):
    """monomial abstraction: f in sum-of-monomials form with every non-linear monomial replaced by ONE variable per distinct monomial.
    The result is linear and is implied by f together with the (dropped) definitions of the monomial variables, so `unsat` of the abstraction
    is `unsat` of the original.  It decides the many queries that follow from the path condition by purely linear reasoning over polynomials
    the solver would otherwise multiply out and hand to nlsat (gamma = P/(P+Q) in [0,1] from P > 0, Q > 0)."""
    k = f.get_id()
    hit = _ABS_CACHE.get(k)
    if hit is not None:
        return hit[1]
    out = None
    try:
        if _ast_size(f, 4000) <= 4000:
            g = z3.simplify(f, som=True)
            if _ast_size(g, 20000) <= 20000:
                out = _abs_rw(g, {})
    except Exception:  # noqa
        out = None
    _ABS_CACHE[k] = (f, out)
    return out


def _mono_var(factors):
    key = "*".join(sorted(factors))
    v = _ABS_TABLE.get(key)
    if v is None:
        v = z3.Real(f"mono!{len(_ABS_TABLE)}")
        _ABS_TABLE[key] = v
        cnt = {}
        for x in factors:
            cnt[x] = cnt.get(x, 0) + 1
        if all(c % 2 == 0 for c in cnt.values()):
            _ABS_FACTS[str(v)] = v >= 0
    return v


def _abs_factors(e):
    """(constant factors, atomic factor names) of a monomial term, or None if e is not a product of constants, variables and constant powers of variables"""
    if z3.is_rational_value(e):
        return [e], []
    if z3.is_const(e):
        return [], [e.sexpr()]
    if z3.is_app(e) and e.decl().kind() == z3.Z3_OP_POWER:
        b, x = e.children()
        if z3.is_const(b) and not z3.is_rational_value(b) and z3.is_rational_value(x):
            fr = x.as_fraction()
            if fr.denominator == 1 and 1 <= fr.numerator <= 16:
                return [], [b.sexpr()] * int(fr.numerator)
        return None
    if z3.is_app(e) and e.decl().kind() == z3.Z3_OP_MUL:
        cs, fs = [], []
        for c in e.children():
            r = _abs_factors(c)
            if r is None:
                return None
            cs += r[0]
            fs += r[1]
        return cs, fs
    if z3.is_app(e) and e.decl().kind() == z3.Z3_OP_UMINUS:
        r = _abs_factors(e.arg(0))
        return None if r is None else ([z3.RealVal(-1)] + r[0], r[1])
    return None


def _abs_rw(e, memo):
    i = e.get_id()
    if i in memo:
        return memo[i]
    r = e
    if z3.is_app(e) and e.num_args() > 0:
        kind = e.decl().kind()
        ch = e.children()
        if kind in (z3.Z3_OP_MUL, z3.Z3_OP_POWER):
            cf = _abs_factors(e)
            if cf is None:
                raise ValueError("not a monomial")
            consts, facs = cf
            if len(facs) >= 2:
                r = _mono_var(facs)
                for c in consts:
                    r = c * r
            else:
                r = e
        elif kind in (z3.Z3_OP_DIV, z3.Z3_OP_IDIV, z3.Z3_OP_MOD):
            if not z3.is_rational_value(ch[1]):
                raise ValueError("division by a term")
            r = e.decl()(*[_abs_rw(c, memo) for c in ch])
        else:
            r = e.decl()(*[_abs_rw(c, memo) for c in ch])
    memo[i] = r
    return r


def _vars_of(f):
    out, stack, seen = [], [f], set()
    while stack:
        e = stack.pop()
        i = e.get_id()
        if i in seen:
            continue
        seen.add(i)
        if z3.is_const(e) and e.decl().kind() == z3.Z3_OP_UNINTERPRETED:
            out.append(e)
        stack.extend(e.children())
    return out


class Space:
    def __init__(self, timeout_ms=10000, prefix=()):
        self.timeout_ms = timeout_ms
        self.prefix = list(prefix)
        self.pc = []
        self.assumed = []
        self.dirty = True
        self.trail = []  # entries: [kind, value, remaining]  kind 'b' (bool) / 'c' (choice)
        self.pos = 0
        self.nchoice = 0
        self.nq = 0
        self.n_unsat = self.n_sat = self.n_unknown = 0
        self.t_solver = 0.0
        self.nfresh = 0
        self.memo = {}
        self.choices = []  # concrete choice values taken on the current path (for reporting)
        self.last_model = None
        self.notes = {}
        self.branch_timeout_ms = min(timeout_ms, 3000)
        self.sqrt_candidates = []
        self.n_branch_unknown = 0

    # --- solver
    def _solve(self, logic, assertions, timeout_ms):
        s = z3.SolverFor(logic) if logic else z3.Solver()
        s.set("timeout", int(timeout_ms))
        for a in assertions:
            s.add(a)
        t = time.time()
        r = s.check()
        self.t_solver += time.time() - t
        return r, s

    def check(self, *extra, timeout_ms=None, fallback=True):
        """Decide pc /\ extra.  Returns 'sat' | 'unsat' | 'unknown'.
        A cheap pass over the *linear* part of the path condition is tried first (sound for unsat)."""
        self.nq += 1
        timeout_ms = timeout_ms or self.timeout_ms
        extra = list(extra)
        lin = [a for a in self.pc if _is_linear(a)]
        all_lin = len(lin) == len(self.pc) and all(_is_linear(e) for e in extra)
        if all_lin:
            r, s = self._solve("QF_LRA", self.pc + extra, timeout_ms)
            if r == z3.unsat:
                self.n_unsat += 1
                return "unsat"
            if r == z3.sat:
                self.n_sat += 1
                self.last_model = s.model()
                return "sat"
        else:
            lin_extra = [e for e in extra if _is_linear(e)]
            if lin_extra or not extra:
                r, _ = self._solve("QF_LRA", lin + lin_extra, 2000)
                if r == z3.unsat:
                    self.n_unsat += 1
                    return "unsat"
        r, s = self._solve("QF_NRA", self.pc + extra, timeout_ms)
        if r == z3.unknown and fallback:
            r, s = self._solve(None, self.pc + extra, timeout_ms)
        if r == z3.unknown:
            # last resort (sound for unsat only): monomial abstraction + linear arithmetic
            ab = [_abstract(a) for a in self.pc + extra]
            if all(a is not None for a in ab):
                names = set()
                for a in ab:
                    names.update(str(v) for v in _vars_of(a) if str(v).startswith("mono!"))
                facts = [_ABS_FACTS[n] for n in names if n in _ABS_FACTS]
                r2, _ = self._solve("QF_LRA", ab + facts, 5000)
                if r2 == z3.unsat:
                    self.n_abs = getattr(self, "n_abs", 0) + 1
                    r = z3.unsat
        if r == z3.unsat:
            self.n_unsat += 1
            return "unsat"
        if r == z3.sat:
            self.n_sat += 1
            self.last_model = s.model()
            return "sat"
        self.n_unknown += 1
        return "unknown"

    def fresh_real(self, name="r"):
        self.nfresh += 1
        return z3.Real(f"{name}!{self.nfresh}")

    def assume(self, c):
        if isinstance(c, B):
            c = c.z()
        if c is True:
            return
        if c is False:
            raise PathAbort("assumed False")
        self.pc.append(c)
        self.assumed.append(c)
        self.dirty = True  # an assumption may have made the path condition unsatisfiable: the next branch checks both sides

    def proved(self, f, timeout_ms=3000):
        """True iff the solver proves pc => f.  The answer steers the environment model (which closed form / candidate a stub
        uses), so it is RECORDED on the trail: a replayed prefix must take exactly the same decisions even if a solver call that
        succeeded the first time would now time out (timeouts are not reproducible under load)."""
        if self.pos < len(self.trail):
            ent = self.trail[self.pos]
            assert ent[0] == "d", "non-deterministic harness (decision/branch mismatch)"
            self.pos += 1
            return ent[1]
        if isinstance(f, B):
            f = f.z()
        fs = z3.simplify(f)
        if z3.is_true(fs):
            r = True
        elif z3.is_false(fs):
            r = False
        else:
            r = self.check(z3.Not(f), timeout_ms=timeout_ms, fallback=False) == "unsat"
        self.trail.append(["d", r, 0])
        self.pos += 1
        return r

    def assume_feasible(self, c):
        """assume c and abort the path if the path condition became unsatisfiable."""
        self.assume(c)
        if self.proved(z3.BoolVal(False), timeout_ms=self.branch_timeout_ms):
            raise PathAbort("assumption infeasible")

    # --- forking
    def branch(self, cond):
        simp = z3.simplify(cond)
        if z3.is_true(simp):
            return True
        if z3.is_false(simp):
            return False
        if self.pos < len(self.trail):
            ent = self.trail[self.pos]
            assert ent[0] == "b", f"non-deterministic harness (expected a branch, trail has {ent[0]})"
            val = ent[1]
        else:
            bt = self.branch_timeout_ms
            rf = self.check(z3.Not(cond), timeout_ms=bt, fallback=False)
            if rf == "unsat" and not self.dirty:
                rt = "sat"  # the path condition is known to be satisfiable, so the other side must be
            else:
                rt = self.check(cond, timeout_ms=bt, fallback=False)
            if rt == "sat" or rf == "sat":
                self.dirty = False
            if rt == "unknown" or rf == "unknown":
                self.n_branch_unknown += 1  # explored as feasible (over-approximation, sound for 'holds' verdicts)
            t_ok, f_ok = rt != "unsat", rf != "unsat"
            if t_ok and f_ok:
                val = True
                self.trail.append(["b", True, 1])
            elif t_ok:
                val = True
                self.trail.append(["b", True, 0])
            elif f_ok:
                val = False
                self.trail.append(["b", False, 0])
            else:
                raise PathAbort("infeasible path")
        self.pos += 1
        self.pc.append(cond if val else z3.Not(cond))
        return val

    def choice(self, n, label=None):
        """Unconstrained nondeterministic choice in range(n); no solver query."""
        if n <= 0:
            raise PathAbort("empty choice")
        k = self.nchoice
        self.nchoice += 1
        if k < len(self.prefix):
            v = self.prefix[k]
            if v >= n:
                raise PathAbort("prefix out of range")
            self.choices.append((label, v))
            return v
        if self.pos < len(self.trail):
            ent = self.trail[self.pos]
            assert ent[0] == "c", "non-deterministic harness (bool/choice mismatch)"
            v = ent[1]
        else:
            v = 0
            self.trail.append(["c", 0, n - 1])
        self.pos += 1
        self.choices.append((label, v))
        return v

    def next_path(self):
        while self.trail and self.trail[-1][2] == 0:
            self.trail.pop()
        if not self.trail:
            return False
        last = self.trail[-1]
        if last[0] == "b":
            last[1] = not last[1]
            last[2] = 0
        else:
            last[1] += 1
            last[2] -= 1
        return True

    def begin_path(self):
        self.pc = []
        self.assumed = []
        self.dirty = True
        self.pos = 0
        self.nchoice = 0
        self.nfresh = 0
        self.memo = {}
        if len(_LIN_CACHE) > 50000:
            _LIN_CACHE.clear()
        self.choices = []
        self.notes = {}
        self.sqrt_candidates = []


SPACE: Space | None = None


def space() -> Space:
    return SPACE


def fresh(name="x") -> R:
    return R(SPACE.fresh_real(name))


def named(name) -> R:
    return R(z3.Real(name))


def assume(c):
    SPACE.assume(c)


def choice(n, label=None):
    return SPACE.choice(n, label)


# ---------------------------------------------------------------------------------------------
# model values
# ---------------------------------------------------------------------------------------------
def mval(model, x):
    """Evaluate an R / term / B under a model -> Fraction (or float for algebraic numbers) / bool."""
    if isinstance(x, Sp):
        return x.k
    if isinstance(x, B):
        if x.conc:
            return x.v
        return bool(z3.is_true(model.eval(x.v, model_completion=True)))
    if isinstance(x, R):
        n, d = mval(model, x.n), mval(model, x.d)
        if isinstance(n, float) or isinstance(d, float):
            return float(n) / float(d)
        return n / d
    if _isc(x):
        return Fraction(x)
    v = model.eval(x, model_completion=True)
    if z3.is_rational_value(v):
        return Fraction(v.numerator_as_long(), v.denominator_as_long())
    if z3.is_algebraic_value(v):
        return float(v.approx(30).as_fraction())
    v = z3.simplify(v)
    if z3.is_rational_value(v):
        return Fraction(v.numerator_as_long(), v.denominator_as_long())
    raise Inconclusive(f"cannot evaluate {x} in model: {v}")


def jval(v):
    """JSON-able form of a model value."""
    if isinstance(v, Fraction):
        return {"num": str(v.numerator), "den": str(v.denominator)} if v.denominator != 1 else int(v.numerator) if abs(v.numerator) < 2 ** 53 else {"num": str(v.numerator), "den": "1"}
    return v


# ---------------------------------------------------------------------------------------------
# exploration
# ---------------------------------------------------------------------------------------------
class Ob:
    """One proof obligation emitted at the end of a path."""

    __slots__ = ("name", "formula", "cex", "info", "hunt")

    def __init__(self, name, formula, cex=None, info=None, hunt=False):
        if isinstance(formula, B):
            formula = formula.z()
        elif isinstance(formula, bool):
            formula = z3.BoolVal(formula)
        self.name = name
        self.formula = formula
        self.cex = cex  # callable(model) -> json dict for replay
        self.info = info
        # hunt: a SEARCH-ONLY obligation.  The claim is carried by other (decidable) obligations; this one states the property directly where the
        # solver cannot decide it in general.  sat => counterexample (replayed like any other); unsat / unknown => nothing is concluded from it.
        self.hunt = hunt


def _record_cex(sp, st, ob, f):
    m = sp.last_model
    rm = robust_model(sp, z3.Not(f)) if not z3.is_false(f) or sp.pc else None
    alts = [m] if rm is not None else []
    if rm is not None:
        m = rm
    elif not z3.is_false(f) and sp.pc:
        # no model is robust in every relation: ask for one whose OBSERVABLE difference is large (margin on the negated
        # obligation only) - faults that need inputs of extreme scale have only such counterexamples
        om = robust_model(sp, z3.Not(f), ob_only=True)
        if om is not None:
            alts, m = [m], om
    rec = dict(ob=ob.name, choices=[list(c) for c in sp.choices], info=ob.info)
    try:
        rec["cex"] = ob.cex(m) if ob.cex else None
    except Inconclusive as e:
        rec["cex"] = None
        rec["cex_error"] = str(e)
    except Exception as e:  # noqa - a counterexample that cannot be rendered is reported as not replayable (=> inconclusive), never dropped
        rec["cex"] = None
        rec["cex_error"] = f"{type(e).__name__}: {e}"
    rec["alt_cex"] = []
    for am in alts:
        try:
            if ob.cex:
                rec["alt_cex"].append(ob.cex(am))
        except Exception:  # noqa
            pass
    st["cex"].append(rec)


def explore(fn, timeout_ms=10000, prefix=(), max_paths=200000, sample_every=0, budget_s=None, dump_dir=None):
    """Run fn(space) over every feasible path.  fn returns a list of Ob.
    Returns a dict of measured statistics, counterexamples and unknowns."""
    global SPACE
    sp = Space(timeout_ms, prefix)
    SPACE = sp
    t0 = time.time()
    st = dict(paths=0, aborted=0, obligations=0, nontrivial=0, discharged=0, cex=[], unknown=[], samples=[],
              by_name={}, truncated=False, errors=[])
    while True:
        sp.begin_path()
        try:
            obs = fn(sp) or []
            st["paths"] += 1
            if obs:
                st["paths_with_obs"] = st.get("paths_with_obs", 0) + 1
            for ob in obs:
                if ob.hunt:
                    st["hunts"] = st.get("hunts", 0) + 1
                    f = z3.simplify(ob.formula)
                    if not z3.is_true(f) and sp.check(z3.Not(f)) == "sat":
                        st["obligations"] += 1
                        st["nontrivial"] += 1
                        st["by_name"].setdefault(ob.name, [0, 0])[0] += 1
                        _record_cex(sp, st, ob, f)
                    continue
                st["obligations"] += 1
                bn = st["by_name"].setdefault(ob.name, [0, 0])
                bn[0] += 1
                raw_trivial = z3.is_true(ob.formula)
                f = z3.simplify(ob.formula)
                if z3.is_true(f):
                    st["discharged"] += 1
                    bn[1] += 1
                    if not raw_trivial:
                        st["nontrivial"] += 1
                        st["by_rewriter"] = st.get("by_rewriter", 0) + 1
                        if len(st["samples"]) < 2:
                            s_ = str(ob.formula)
                            st["samples"].append(dict(ob=ob.name, choices=[list(c) for c in sp.choices], decided="z3 simplifier (polynomial normal form)",
                                                      formula=s_[:400] + ("..." if len(s_) > 400 else "")))
                    continue
                st["nontrivial"] += 1
                dump_this = bool(dump_dir) and st["nontrivial"] % 40 == 1 and st.get("dumped", 0) < 4
                r = None
                if not z3.is_false(f) and len(sp.assumed) < len(sp.pc):
                    # the definitional slice of the path condition (stub contracts, sqrt definitions, domain assumptions) often suffices
                    # and is much easier than the full path condition; unsat on a subset is unsat on the whole
                    t_ = time.time()
                    rr, _s = sp._solve("QF_NRA", list(sp.assumed) + [z3.Not(f)], min(sp.timeout_ms, 3000))
                    sp.nq += 1
                    if rr == z3.unsat:
                        sp.n_unsat += 1
                        r = "unsat"
                if r is None:
                    r = "sat" if z3.is_false(f) and sp.check() == "sat" else sp.check(z3.Not(f))
                if dump_this and r in ("unsat", "sat"):
                    st["dumped"] = st.get("dumped", 0) + 1
                    _dump(dump_dir, sp, f, st["nontrivial"], r)
                if r == "unsat":
                    st["discharged"] += 1
                    bn[1] += 1
                elif r == "sat":
                    _record_cex(sp, st, ob, f)
                else:
                    st["unknown"].append(dict(ob=ob.name, choices=[list(c) for c in sp.choices]))
                if len(st["samples"]) < 3 and not z3.is_true(f):
                    s = str(f)
                    st["samples"].append(dict(ob=ob.name, choices=[list(c) for c in sp.choices],
                                              pc_len=len(sp.pc), formula=s[:400] + ("..." if len(s) > 400 else "")))
        except PathAbort:
            st["aborted"] += 1
        if len(st["cex"]) >= 5:
            st["truncated"] = True
            break
        if st["paths"] + st["aborted"] >= max_paths or (budget_s and time.time() - t0 > budget_s):
            if sp.next_path():
                st["truncated"] = True
            break
        if not sp.next_path():
            break
    st.setdefault("hunts", 0)
    st["by_abstraction"] = getattr(sp, "n_abs", 0)
    st.update(queries=sp.nq, unsat=sp.n_unsat, sat=sp.n_sat, n_unknown=sp.n_unknown, branch_unknown=sp.n_branch_unknown,
              solver_s=round(sp.t_solver, 3), wall_s=round(time.time() - t0, 3))
    return st


def _margin(f, delta, neg=False):
    """f with every order atom strengthened by a margin delta (and negations pushed inwards): a model of the result satisfies f
    ROBUSTLY, i.e. it stays a model under small perturbations - this is what makes a counterexample survive floating point on replay"""
    d = z3.RealVal(str(delta))
    if z3.is_not(f):
        return _margin(f.arg(0), delta, not neg)
    if z3.is_and(f) or z3.is_or(f):
        parts = [_margin(c, delta, neg) for c in f.children()]
        return (z3.Or if (z3.is_and(f) != (not neg)) else z3.And)(*parts) if len(parts) > 1 else parts[0]
    if z3.is_app(f) and f.decl().kind() == z3.Z3_OP_IMPLIES:
        a, b = f.children()
        return _margin(z3.Or(z3.Not(a), b), delta, neg)
    if z3.is_app(f) and f.num_args() == 2 and z3.is_arith(f.arg(0)):
        l, r = f.arg(0), f.arg(1)
        k = f.decl().kind()
        if neg:
            k = {z3.Z3_OP_LE: z3.Z3_OP_GT, z3.Z3_OP_LT: z3.Z3_OP_GE, z3.Z3_OP_GE: z3.Z3_OP_LT, z3.Z3_OP_GT: z3.Z3_OP_LE,
                 z3.Z3_OP_EQ: z3.Z3_OP_DISTINCT, z3.Z3_OP_DISTINCT: z3.Z3_OP_EQ}.get(k, k)
        if k in (z3.Z3_OP_LE, z3.Z3_OP_LT):
            return l <= r - d
        if k in (z3.Z3_OP_GE, z3.Z3_OP_GT):
            return l >= r + d
        if k == z3.Z3_OP_EQ:
            return l == r
        if k == z3.Z3_OP_DISTINCT:
            return z3.Or(l <= r - d, l >= r + d)
    return z3.Not(f) if neg else f


def robust_model(sp, negated_ob, timeout_ms=5000, ob_only=False):
    """a model of pc /\ not(ob) in which every order relation holds with a margin (None if none is found quickly);
    ob_only: the margin is required of the negated obligation only"""
    for delta in ("1/100", "1/10000"):
        try:
            cs = [(a if ob_only else _margin(a, delta)) for a in sp.pc] + [_margin(negated_ob, delta)]
        except Exception:  # noqa
            return None
        r, s = sp._solve("QF_NRA", cs, timeout_ms)
        if r == z3.sat:
            return s.model()
    return None


def _dump(dump_dir, sp, f, k, answer):
    os.makedirs(dump_dir, exist_ok=True)
    s = z3.Solver()
    for a in sp.pc:
        s.add(a)
    s.add(z3.Not(f))
    with open(os.path.join(dump_dir, f"q{os.getpid()}_{k}_{answer}.smt2"), "w") as fh:
        fh.write("(set-logic QF_NRA)\n" + s.sexpr() + "(check-sat)\n")
