"""Regenerates /verif/benign/README.md from the meta files."""
import glob, json, os
rows = []
for d in sorted(glob.glob("/verif/benign/*/")):
    mp = os.path.join(d, "meta.json")
    if not os.path.exists(mp):
        continue
    m = json.load(open(mp))
    a = {}
    if os.path.exists(os.path.join(d, "meta_agent.json")):
        try:
            a = json.load(open(os.path.join(d, "meta_agent.json")))
        except Exception:  # noqa
            a = {}
    res = []
    for c in m.get("checks_run", []):
        pid, ex = c.split(":exit")
        res.append(f"{pid}: {'ok' if ex == '0' else ('**VIOLATION (false alarm)**' if ex == '1' else 'inconclusive (exit 2)')}")
    rows.append(f"| {m['name']} | {(a.get('summary') or '').replace('|', '/')[:300]} | {m.get('tests_with_change', '')[:12]} | {', '.join(res)} |")
hdr = """# Behaviour-preserving changes

Each directory holds `patch.diff` (a refactoring against /repo HEAD that keeps every property), the sub-agent's description and the result of
running the quick checks against it in a scratch worktree (`tools_benign.sh`). Expectation: every check exits 0. A first-run result other than 0
is kept in the table of DESIGN.md section 6 together with what was changed in /verif; the table below is the state after those changes.

| id | change | suite | checks |
|---|---|---|---|
"""
open("/verif/benign/README.md", "w").write(hdr + "\n".join(rows) + "\n")
print(len(rows), "behaviour-preserving changes")
