"""check driver: runs the harness of one property over all its cases in parallel, replays every
counterexample on the REAL stack, consults known_findings.json, writes evidence/<id>.json.

exit 0  property held on everything explored (KNOWN-FINDING lines allowed)
exit 1  VIOLATION property=<id> replay=<path>   (only after the counterexample reproduced on the real stack)
exit 2  inconclusive / harness error (solver unknown, unmodelled environment call, non-reproducing cex)
"""
from __future__ import annotations

import argparse
import importlib
import json
import multiprocessing as mp
import multiprocessing.connection
import os
import subprocess
import sys
import time
import traceback

HERE = os.path.dirname(os.path.abspath(__file__))
REPO = os.environ.get("VERIF_REPO", "/repo")
sys.path[:0] = [HERE, os.path.join(HERE, "symtorch"), os.path.join(REPO, "src")]
REAL_PY = os.environ.get("VERIF_REAL_PY", "/venv/bin/python")


def _trace_functions(fn):
    """run fn() and record which functions of /repo/src were executed"""
    seen = set()
    src = os.path.join(REPO, "src") + os.sep

    def prof(frame, event, arg):
        if event == "call":
            f = frame.f_code.co_filename
            if f.startswith(src):
                seen.add(f[len(src):] + ":" + frame.f_code.co_qualname if hasattr(frame.f_code, "co_qualname") else f[len(src):] + ":" + frame.f_code.co_name)

    sys.setprofile(prof)
    try:
        return fn(), seen
    finally:
        sys.setprofile(None)


def run_case(arg):
    pid, case, tier = arg
    import symx
    t0 = time.time()
    try:
        mod = importlib.import_module(f"harness.{pid}")
        fn = getattr(mod, "case_" + case["fn"])
        kwargs = case.get("args", {})
        funcs = set()
        state = {"n": 0}

        def path(sp):
            state["n"] += 1
            if state["n"] <= 2:
                r, seen = _trace_functions(lambda: fn(sp, **kwargs))
                funcs.update(seen)
                return r
            return fn(sp, **kwargs)

        to = case.get("timeout_ms", 10000 if tier == "quick" else 60000)
        dump = os.path.join("/tmp", f"verif_xcheck_{pid}") if tier == "thorough" else None
        st = symx.explore(path, timeout_ms=to, prefix=case.get("prefix", ()), max_paths=case.get("max_paths", 200000), dump_dir=dump,
                          budget_s=case.get("budget_s", 150 if tier == "quick" else 1500))
        st["functions"] = sorted(funcs)
        st["status"] = "ok"
        # a search-only case (all its obligations are hunts): nothing is claimed from it, so reaching no obligation or running out of budget is not a failure
        st["allow_empty"] = st["hunt_only"] = bool(case.get("hunt_only"))
    except symx.Inconclusive as e:
        st = dict(status="inconclusive", error=f"{type(e).__name__}: {e}", trace=traceback.format_exc()[-1500:])
    except BaseException as e:  # harness error
        st = dict(status="error", error=f"{type(e).__name__}: {e}", trace=traceback.format_exc()[-3000:])
    st["case"] = case["name"]
    st["case_wall_s"] = round(time.time() - t0, 3)
    return json.loads(json.dumps(st, default=str))  # picklable, JSON-clean


def _worker(conn, arg):
    try:
        conn.send(run_case(arg))
    except BaseException as e:  # noqa
        conn.send(dict(status="error", error=f"worker crashed: {type(e).__name__}: {e}", case=arg[1]["name"], case_wall_s=0))
    finally:
        conn.close()


def _run_all(pid, cases, tier, jobs):
    """one forked process per case, at most `jobs` at a time, each under a HARD wall-clock limit
    (z3 does not always honour its own timeout)."""
    ctx = mp.get_context("fork")
    verbose = bool(os.environ.get("VERIF_VERBOSE"))
    pending = list(cases)
    running = {}  # conn -> (proc, case, t0, limit)
    results = []
    default_budget = 150 if tier == "quick" else 1500
    while pending or running:
        while pending and len(running) < jobs:
            c = pending.pop(0)
            parent, child = ctx.Pipe(duplex=False)
            p = ctx.Process(target=_worker, args=(child, (pid, c, tier)))
            p.start()
            child.close()
            running[parent] = (p, c, time.time(), c.get("budget_s", default_budget) * 1.3 + 30)
        ready = mp.connection.wait(list(running), timeout=1.0)
        for conn in ready:
            p, c, t0, lim = running.pop(conn)
            try:
                r = conn.recv()
            except EOFError:
                r = dict(status="error", error="worker died without a result", case=c["name"], case_wall_s=round(time.time() - t0, 1))
            p.join()
            results.append(r)
            if verbose:
                print(f"  .. {r['case']}: {r['status']} paths={r.get('paths')} obs={r.get('obligations')} unk={r.get('n_unknown')} cex={len(r.get('cex', []))} "
                      f"solver={r.get('solver_s')} wall={r['case_wall_s']} {r.get('error', '')}", file=sys.stderr, flush=True)
        now = time.time()
        for conn in list(running):
            p, c, t0, lim = running[conn]
            if now - t0 > lim:
                p.kill()
                p.join()
                running.pop(conn)
                results.append(dict(status="inconclusive", error=f"hard wall-clock limit of {lim:.0f}s exceeded (solver did not return)", case=c["name"], case_wall_s=round(now - t0, 1)))
                if verbose:
                    print(f"  .. {c['name']}: KILLED after {now - t0:.0f}s", file=sys.stderr, flush=True)
    return results


def replay_real(pid, cex, out_dir, tag):
    """run the counterexample on the real stack; returns (reproduced: bool|None, detail, path)"""
    os.makedirs(out_dir, exist_ok=True)
    path = os.path.join(out_dir, f"{pid}_{tag}.json")
    with open(path, "w") as fh:
        json.dump(cex, fh, indent=1, default=str)
    try:
        p = subprocess.run([REAL_PY, os.path.join(HERE, "replay", "real.py"), path], capture_output=True, text=True,
                           timeout=300, env={**os.environ, "PYTHONPATH": os.path.join(REPO, "src"), "VERIF_REPO": REPO})
    except subprocess.TimeoutExpired:
        return None, "replay timed out", path
    last = [l for l in p.stdout.strip().splitlines() if l.startswith("REPLAY ")]
    if p.returncode not in (0, 1) or not last:
        return None, f"replay harness error rc={p.returncode}: {p.stdout[-500:]} {p.stderr[-1500:]}", path
    rec = json.loads(last[-1][len("REPLAY "):])
    return bool(rec.get("reproduced")), rec, path


def cross_check(d, limit=60):
    """re-run sampled SMT-LIB2 queries with /usr/bin/z3 (4.8.12) and cvc5 (1.0, --nl-cov); a definite answer that contradicts ours = disagreement"""
    import glob
    import shutil
    from concurrent.futures import ThreadPoolExecutor
    files = sorted(glob.glob(os.path.join(d, "*.smt2")))[:limit]
    res = dict(queries=len(files), agree=0, other_unknown=0, disagree=[])

    def one(f):
        ours = f.rsplit("_", 1)[1][:-5]
        out = []
        for cmd in (["/usr/bin/z3", "-T:20", f], ["cvc5", "--tlimit=20000", "--nl-cov", f]):
            try:
                p = subprocess.run(cmd, capture_output=True, text=True, timeout=40)
                ans = (p.stdout.strip().splitlines() or ["unknown"])[0]
                if "(error" in p.stdout or ans not in ("sat", "unsat"):
                    ans = "unknown"
            except Exception:  # noqa
                ans = "unknown"
            out.append(ans)
        return f, ours, out

    with ThreadPoolExecutor(8) as ex:
        for f, ours, outs in ex.map(one, files):
            for o in outs:
                if o == "unknown":
                    res["other_unknown"] += 1
                elif o == ours:
                    res["agree"] += 1
                else:
                    res["disagree"].append(dict(file=os.path.basename(f), ours=ours, other=o))
    shutil.rmtree(d, ignore_errors=True)
    return res


def load_known():
    p = os.path.join(HERE, "known_findings.json")
    if not os.path.exists(p):
        return []
    return json.load(open(p)).get("findings", [])


def match_known(pid, cex, detail, known):
    """a finding is identified by property + a key computed by the replay on the REAL behaviour"""
    key = (detail or {}).get("finding_key") if isinstance(detail, dict) else None
    for k in known:
        if k.get("status", "open") != "open":
            continue  # fixed entries suppress nothing
        if k["property"] == pid and key is not None and k["key"] == key:
            return k
    return None


def main(argv=None):
    ap = argparse.ArgumentParser()
    ap.add_argument("pid", nargs="?")
    ap.add_argument("--tier", default=os.environ.get("VERIF_TIER", "quick"))
    ap.add_argument("--replay")
    ap.add_argument("--jobs", type=int, default=int(os.environ.get("VERIF_JOBS", "16")))
    ap.add_argument("--only", help="substring filter on case names (debugging; evidence is marked partial)")
    ap.add_argument("--no-evidence", action="store_true")
    a = ap.parse_args(argv)
    if a.replay:
        cex = json.load(open(a.replay))
        rep, detail, _ = replay_real(cex.get("property", "C??"), cex, "/tmp/verif_replay", "manual")
        print(json.dumps(detail, indent=1, default=str))
        print("reproduced" if rep else "NOT reproduced" if rep is False else "replay error")
        return 1 if rep else 0
    pid = a.pid
    tier = a.tier if a.tier in ("quick", "thorough") else "quick"
    seed = int(os.environ.get("VERIF_SEED", "0") or 0)
    t0 = time.time()
    try:
        mod = importlib.import_module(f"harness.{pid}")
    except Exception as e:  # the harness imports torchjd's own modules against the model: an unmodelled name at import time is inconclusive, not a violation
        traceback.print_exc()
        print(f"[{pid}/{tier}] status=inconclusive: the harness could not be imported against the current tree ({type(e).__name__}: {e})")
        return 2
    cases = mod.cases(tier)
    if a.only:
        cases = [c for c in cases if a.only in c["name"]]
    cases.sort(key=lambda c: -c.get("weight", 1))
    results = _run_all(pid, cases, tier, a.jobs)
    # ---- merge
    tot = dict(paths=0, aborted=0, obligations=0, nontrivial=0, discharged=0, by_rewriter=0, paths_with_obs=0, queries=0, unsat=0, sat=0, n_unknown=0,
               branch_unknown=0, solver_s=0.0, hunts=0, by_abstraction=0)
    by_name, funcs, samples, cexs, unknowns, bad, truncated = {}, set(), [], [], [], [], []
    per_case = []
    for r in results:
        if r["status"] != "ok":
            bad.append(r)
            continue
        for k in tot:
            tot[k] += r.get(k, 0)
        for n, (a_, b_) in r["by_name"].items():
            x = by_name.setdefault(n, [0, 0])
            x[0] += a_
            x[1] += b_
        funcs.update(r["functions"])
        for s in r["samples"][:1]:
            if len(samples) < 6:
                samples.append(dict(case=r["case"], **s))
        for c in r["cex"]:
            cexs.append(dict(case=r["case"], **c))
        for u in r["unknown"]:
            unknowns.append(dict(case=r["case"], **u))
        if r.get("truncated") and not r["cex"] and not r.get("hunt_only"):
            truncated.append(r["case"])
        per_case.append(dict(case=r["case"], paths=r["paths"], obligations=r["obligations"], queries=r["queries"],
                             solver_s=r["solver_s"], wall_s=r["case_wall_s"]))
    # ---- thorough tier: cross-check a sample of the discharged queries with two other solvers (old z3 4.8.12 binary, cvc5 binary)
    xcheck = None
    if tier == "thorough":
        xcheck = cross_check(os.path.join("/tmp", f"verif_xcheck_{pid}"))
    # ---- vacuity: every declared case must reach at least one obligation
    vacuous = [r["case"] for r in results if r["status"] == "ok" and r["obligations"] == 0 and not r.get("allow_empty")]
    # ---- counterexamples -> replay on the real stack
    known = load_known()
    out_dir = os.environ.get("VERIF_CEX_DIR") or os.path.join(HERE, "evidence", "cex")  # concurrent runs of one check against different trees need distinct directories
    violations, known_hits, unreproduced = [], [], []
    seen_keys = set()
    # replay at most 3 counterexamples per obligation name (stop at the first that reproduces), in parallel
    from concurrent.futures import ThreadPoolExecutor
    by_ob = {}
    for i, c in enumerate(cexs):
        by_ob.setdefault(c["ob"], []).append((i, c))
    def replay_group(item):
        ob, lst = item
        res = []
        # prefer counterexamples from distinct cases (a clause can be violated in the model without observable effect in a degenerate case)
        seen_cases, ordered = set(), []
        for i, c in lst:
            if c["case"] not in seen_cases:
                seen_cases.add(c["case"])
                ordered.append((i, c))
        ordered += [(i, c) for i, c in lst if (i, c) not in ordered]
        for i, c in ordered[:8]:
            cex = c.get("cex")
            if cex is None:
                res.append((c, None, None, "no replayable counterexample was produced"))
                continue
            cex = dict(cex, property=pid, ob=c["ob"], case=c["case"])
            rep, detail, path = replay_real(pid, cex, out_dir, f"{tier}_{i}")
            # other models of the same query (non-robust / differently robust): any one that reproduces on the real stack is a witness
            for k, alt in enumerate(c.get("alt_cex") or []):
                if rep is True or alt is None:
                    break
                rep2, detail2, path2 = replay_real(pid, dict(alt, property=pid, ob=c["ob"], case=c["case"]), out_dir, f"{tier}_{i}_alt{k}")
                if rep2 is True:
                    rep, detail, path = rep2, detail2, path2
            res.append((c, rep, detail, path))
            if rep is True:
                break
        return res
    with ThreadPoolExecutor(8) as ex:
        groups = list(ex.map(replay_group, by_ob.items()))
    for res in groups:
        reproduced_here = [r for r in res if r[1] is True]
        if reproduced_here:
            c, rep, detail, path = reproduced_here[0]
            k = match_known(pid, c, detail, known)
            if k is not None:
                if k["key"] not in seen_keys:
                    seen_keys.add(k["key"])
                    known_hits.append(k)
            else:
                violations.append(dict(path=path, ob=c["ob"], case=c["case"], detail=detail))
        else:
            for c, rep, detail, path in res:
                unreproduced.append(dict(case=c["case"], ob=c["ob"], path=path, detail=detail))
    wall = time.time() - t0
    status = "held"
    if violations:
        status = "violation"
    elif bad or unknowns or unreproduced or vacuous or truncated or (xcheck and xcheck["disagree"]):
        status = "inconclusive"
    ev = dict(
        property_id=pid, tier=tier, seed=seed, level="model_checking",
        coverage=dict(
            evaluations=tot["paths"], distinct_nontrivial=tot["nontrivial"] if tot["nontrivial"] else tot["paths_with_obs"],
            structural_only=not tot["nontrivial"],
            rule=("evaluations = feasible symbolic paths of the real torchjd code executed end-to-end on the environment "
                  "model (each path stands for ALL real values of the symbolic inputs satisfying its path condition); "
                  "distinct_nontrivial = proof obligations on those paths that mention solver variables and were decided by z3 "
                  "(check-sat query, or z3's simplifier when the identity already holds in polynomial normal form; the split is reported) (every path/obligation is distinct: the DFS never revisits a decision prefix)"),
            samples=samples or [dict(note="no non-syntactic obligation")],
            obligations=tot["obligations"], discharged=tot["discharged"], discharged_by_z3_rewriter_alone=tot["by_rewriter"],
            obligations_by_name={k: dict(emitted=v[0], discharged=v[1]) for k, v in sorted(by_name.items())},
            paths_infeasible=tot["aborted"], solver_queries=tot["queries"],
            solver_results=dict(unsat=tot["unsat"], sat=tot["sat"], unknown=tot["n_unknown"], branch_unknown_explored_as_feasible=tot["branch_unknown"]),
            solver_seconds=round(tot["solver_s"], 2), solver="z3 %s (fresh QF_NRA / QF_LRA solver per query)" % _z3v(),
            functions_encoded=sorted(funcs), bounds=getattr(mod, "bounds", lambda t: {})(tier),
            cases=len(cases), per_case=per_case if len(per_case) <= 60 else per_case[:60],
            counterexamples_found=len(cexs), counterexamples_reproduced_on_real_stack=len(violations) + len([1 for _ in known_hits]),
            search_only_obligations=dict(tried=tot["hunts"], note="search-only obligations state a clause directly where the solver cannot decide it; sat => counterexample (replayed), "
                                         "unsat/unknown => nothing concluded; they are not counted in obligations/discharged unless they produced a counterexample"),
            queries_decided_by_monomial_abstraction=tot["by_abstraction"],
            known_findings_hit=[k["key"] for k in known_hits], exhaustive=bool(not tot["nontrivial"] and not truncated),
            status=status, partial=bool(a.only), cross_check=xcheck,
            not_decided=dict(unknown_obligations=unknowns[:10], unreproduced=unreproduced[:5], harness_errors=[dict(case=b["case"], error=b["error"]) for b in bad][:10],
                             vacuous_cases=vacuous, truncated_cases=truncated),
        ),
        assumptions=list(getattr(mod, "ASSUMPTIONS", [])) + COMMON_ASSUMPTIONS,
        wall_s=round(wall, 2), violations=len(violations),
    )
    if not a.no_evidence:
        os.makedirs(os.path.join(HERE, "evidence"), exist_ok=True)
        with open(os.path.join(HERE, "evidence", f"{pid}.json"), "w") as fh:
            json.dump(ev, fh, indent=1, default=str)
    print(f"[{pid}/{tier}] cases={len(cases)} paths={tot['paths']} obligations={tot['obligations']} discharged={tot['discharged']} "
          f"queries={tot['queries']} (unsat {tot['unsat']}, sat {tot['sat']}, unknown {tot['n_unknown']}) solver={tot['solver_s']:.1f}s wall={wall:.1f}s status={status}")
    for k in known_hits:
        print(f"KNOWN-FINDING: property={pid} {k['what']}")
    for b in bad:
        print(f"  harness {b['status']} in case {b['case']}: {b['error']}")
        if b["status"] == "error":
            print(b.get("trace", ""))
    for u in unknowns[:5]:
        print(f"  undecided obligation {u['ob']} in case {u['case']}")
    for u in unreproduced[:5]:
        print(f"  counterexample of the model did NOT reproduce on the real stack: {u.get('ob')} case={u.get('case')} file={u.get('path')} detail={str(u.get('detail'))[:300]}")
    for v in vacuous:
        print(f"  vacuous case (no obligation reached): {v}")
    for v in truncated:
        print(f"  truncated case (path budget exhausted): {v}")
    if violations:
        for v in violations:
            print(f"VIOLATION property={pid} replay={v['path']}")
            print(f"  obligation={v['ob']} case={v['case']} detail={json.dumps(v['detail'], default=str)[:600]}")
        return 1
    return 0 if status == "held" else 2


def _z3v():
    import z3
    return z3.get_version_string()


COMMON_ASSUMPTIONS = [
    "tensor elements are exact reals (plus concretely tracked nan/+inf/-inf): rounding, overflow/underflow, float32 vs float64 accuracy and all tolerances are outside the claim; dtype TAGS are tracked",
    "torch / numpy / qpsolvers / cvxpy are replaced by the environment model /verif/symtorch; its fidelity is checked by /verif/validate against the real libraries, not proved",
    "numerical kernels (svd, pinv, eigh, solve_qp, cvxpy) are contract stubs: results hold for every kernel output satisfying the stated contract",
    "python float constants in torchjd are read as the nearest simple rational (within 2^-50 relative), e.g. 1/3, 0.0001, 1e-12",
    "bounds as listed under coverage.bounds; everything larger is outside the claim",
]

if __name__ == "__main__":
    sys.exit(main())
