#!/bin/bash
# usage: tools_seeded.sh <PID> <worktree> [name] [extra check ids...]
# Confirms a seeded change (tests pass with it, demo fails with it / passes without), runs the property's check(s) against it on /repo, stores it under /verif/seeded/<name>/
set -u
PID=$1; WT=$2; NAME=${3:-$PID}; shift 3 2>/dev/null || shift $#
EXTRA="$@"
OUT=/verif/seeded/$NAME
mkdir -p $OUT
cd $WT || exit 9
git diff -- src > $OUT/patch.diff
[ -s $OUT/patch.diff ] || { echo "empty patch"; exit 9; }
cp demo.py $OUT/demo.py 2>/dev/null
# 1. tests with the change
T=$(PYTHONPATH=$WT/src /venv/bin/python -m pytest -q -p no:cacheprovider --timeout=900 -n 8 2>&1 | tail -1)
echo "tests with change: $T"
# 2. demo with / without
(cd $WT && PYTHONPATH=$WT/src timeout 600 /venv/bin/python demo.py >/dev/null 2>&1); D1=$?
git stash -q; (cd $WT && PYTHONPATH=$WT/src timeout 600 /venv/bin/python demo.py >/dev/null 2>&1); D0=$?; git stash pop -q
echo "demo exit with change: $D1 ; without: $D0"
# 3. checks against the change applied to /repo
git -C /repo diff --quiet || { echo "/repo dirty"; exit 9; }
git -C /repo apply $OUT/patch.diff || { echo "patch does not apply to /repo"; exit 9; }
RES=""
for C in $PID $EXTRA; do
  (cd /verif && timeout 3000 ./check $C --tier quick --no-evidence > $OUT/check_$C.log 2>&1); RC=$?
  V=$(grep -c "^VIOLATION" $OUT/check_$C.log)
  echo "check $C: exit $RC, VIOLATION lines $V"
  RES="$RES $C:exit$RC"
done
git -C /repo checkout -- .
git -C /repo status --short | head -3
python3 - "$PID" "$NAME" "$T" "$D1" "$D0" "$RES" "$WT" <<'PY'
import json,sys,os
pid,name,t,d1,d0,res,wt=sys.argv[1:8]
meta={}
try: meta=json.load(open(os.path.join(wt,'meta.json')))
except Exception: pass
out=dict(property=pid, summary=meta.get('summary'), needs=meta.get('needs'), files=meta.get('files'),
         confirmed=dict(tests_with_change=t, demo_exit_with_change=int(d1), demo_exit_without_change=int(d0)),
         checks_run=res.split(), how="patch applied to /repo (git apply), ./check <id> --tier quick, then git checkout -- .")
json.dump(out, open(f'/verif/seeded/{name}/meta.json','w'), indent=1)
PY
