#!/bin/bash
# usage: tools_seeded.sh <PID> <worktree-with-the-change> [name] [extra check ids...]
# Confirms a seeded change (suite passes with it, demo fails with it / passes without) in scratch worktrees, runs the property's check(s)
# against it, stores it under /verif/seeded/<name>/.  The change is evaluated in a scratch worktree of /repo (VERIF_REPO), never in /repo itself.
set -u
PID=$1; WT=$2; NAME=${3:-$PID}; shift 3 2>/dev/null || shift $#
EXTRA="$@"
OUT=/verif/seeded/$NAME
EVAL=/tmp/verif_eval_$NAME
mkdir -p $OUT
# the agent's own mutant.patch is authoritative (the worktree state may have been disturbed); fall back to the worktree diff
if [ -s $WT/mutant.patch ]; then cp $WT/mutant.patch $OUT/patch.diff; elif [ -s $WT/patch.diff ]; then [ $WT/patch.diff -ef $OUT/patch.diff ] || cp $WT/patch.diff $OUT/patch.diff; else ( cd $WT && git diff -- src ) > $OUT/patch.diff; fi
[ -s $OUT/patch.diff ] || { echo "empty patch"; exit 9; }
[ $WT/demo.py -ef $OUT/demo.py ] || cp $WT/demo.py $OUT/demo.py 2>/dev/null
git -C /repo worktree remove --force $EVAL 2>/dev/null
git -C /repo worktree add -q $EVAL HEAD || exit 9
cp $OUT/demo.py $EVAL/demo.py
# without the change
(cd $EVAL && PYTHONPATH=$EVAL/src timeout 900 /venv/bin/python demo.py >/dev/null 2>&1); D0=$?
git -C $EVAL apply $OUT/patch.diff || { echo "patch does not apply to /repo HEAD"; git -C /repo worktree remove --force $EVAL; exit 9; }
# with the change: suite + demo
T=$(cd $EVAL && PYTHONPATH=$EVAL/src /venv/bin/python -m pytest -q -p no:cacheprovider --timeout=900 -n 8 2>&1 | tail -1)
(cd $EVAL && PYTHONPATH=$EVAL/src timeout 900 /venv/bin/python demo.py >/dev/null 2>&1); D1=$?
echo "tests with change: $T"
echo "demo exit with change: $D1 ; without: $D0"
RES=""
for C in $PID $EXTRA; do
  (cd /verif && VERIF_CEX_DIR=/tmp/verif_cex_$NAME VERIF_REPO=$EVAL timeout 3000 ./check $C --tier quick --no-evidence > $OUT/check_$C.log 2>&1); RC=$?
  V=$(grep -c "^VIOLATION" $OUT/check_$C.log)
  echo "check $C: exit $RC, VIOLATION lines $V"
  RES="$RES $C:exit$RC"
  # keep the first reproducing counterexample and confirm that it does NOT reproduce on the unchanged tree (replay soundness)
  CEX=$(grep -m1 "^VIOLATION" $OUT/check_$C.log | sed 's/.*replay=//')
  if [ -n "$CEX" ] && [ -f "$CEX" ]; then
    cp "$CEX" $OUT/cex_$C.json
    if (cd /verif && VERIF_REPO=/repo PYTHONPATH=/repo/src timeout 600 /venv/bin/python replay/real.py $OUT/cex_$C.json 2>&1 | tail -1 | grep -q '"reproduced": true'); then
      echo "check $C: COUNTEREXAMPLE ALSO REPRODUCES ON THE UNCHANGED TREE"; RES="$RES $C:cex-reproduces-on-clean-tree"
    else
      RES="$RES $C:cex-clean-on-unchanged-tree"
    fi
  fi
done
git -C /repo worktree remove --force $EVAL
rm -rf /tmp/verif_cex_$NAME
python3 - "$PID" "$NAME" "$T" "$D1" "$D0" "$RES" "$WT" <<'PY'
import json,sys,os
pid,name,t,d1,d0,res,wt=sys.argv[1:8]
meta={}
try: meta=json.load(open(os.path.join(wt,'meta.json')))
except Exception: pass
out=dict(property=pid, summary=meta.get('summary'), needs=meta.get('needs'), files=meta.get('files'),
         confirmed=dict(tests_with_change=t, demo_exit_with_change=int(d1), demo_exit_without_change=int(d0)),
         checks_run=res.split(), how="patch applied in a scratch worktree of /repo HEAD (git apply); full test suite and demo.py run there; ./check <id> --tier quick run with VERIF_REPO pointing at it; worktree removed")
json.dump(out, open(f'/verif/seeded/{name}/meta.json','w'), indent=1)
PY
